package main

import (
	"fmt"
	"go/token"
	"sort"
	"strings"

	"golang.org/x/tools/go/ssa"
)

// guardedBy: mutable package state and the mutex that must be held at every access.
var guardedBy = map[string]string{
	"calendar.CACHE_YEAR": "calendar.lock",
	"fx.cache":            "fx.mu", // positive-control fixture
}

type lockFinding struct {
	kind      string
	construct string
	pos       token.Pos
	msg       string
}

// lockProtocol runs the whole R09.2 analysis for one context and returns findings and ok-notes.
func lockProtocol(c *Ctx) (bad []lockFinding, good []lockFinding, nMutex int) {
	addBad := func(kind, construct string, pos token.Pos, msg string) {
		bad = append(bad, lockFinding{kind, construct, pos, msg})
	}
	addOK := func(kind, construct string, pos token.Pos, msg string) {
		good = append(good, lockFinding{kind, construct, pos, msg})
	}
	mutexes := c.mutexGlobals()
	nMutex = len(mutexes)
	for _, m := range mutexes {
		mname := gname(m)
		lockers := c.lockingFunctions(m)
		if len(lockers) == 0 {
			addBad("unused-mutex", "mutex "+mname, m.Pos(), "package mutex is never locked; whatever it was meant to guard is unguarded")
		}
		results := map[*ssa.Function]*lockResult{}
		lockerSet := map[string]bool{}
		for _, fn := range lockers {
			lockerSet[fname(fn)] = true
		}
		for _, fn := range lockers {
			lr := analyseLock(fn, m)
			results[fn] = lr
			for _, is := range lr.issues {
				addBad(is.kind, fmt.Sprintf("%s in %s (%s)", is.kind, fname(fn), mname), is.pos, is.msg)
			}
			if len(lr.issues) == 0 {
				addOK("pairing", fmt.Sprintf("lock pairing in %s (%s)", fname(fn), mname), fn.Pos(),
					fmt.Sprintf("%d Lock, %d Unlock (explicit or deferred), %d returns: released on every return and, where the section can panic, by a deferred Unlock", lr.locks, lr.unlocks, lr.returns))
			}
			// re-acquisition through callees while held
			for _, b := range fn.Blocks {
				for _, ins := range b.Instrs {
					call, ok := ins.(*ssa.Call)
					if !ok {
						continue
					}
					st := lr.at[ins]
					if st != lsL && st != lsLD {
						continue
					}
					callee := call.Common().StaticCallee()
					if callee == nil || callee.Blocks == nil || callee.Pkg == nil || !strings.HasPrefix(callee.Pkg.Pkg.Path(), c.ModPath) {
						continue
					}
					reach := map[string]bool{fname(callee): true}
					for k := range c.eff.Of(callee).Calls {
						reach[k] = true
					}
					for k := range reach {
						if lockerSet[k] {
							addBad("reacquire", fmt.Sprintf("re-acquisition of %s via %s in %s", mname, fname(callee), fname(fn)), call.Pos(),
								fmt.Sprintf("while %s is held, %s is called, which reaches %s, which locks it again: self-deadlock (sync.Mutex is not reentrant)", mname, fname(callee), k))
						}
					}
				}
			}
		}
		// unexported helpers that every caller calls with the mutex held start in the held state
		for changed := true; changed; {
			changed = false
			for _, h := range c.Funcs {
				if results[h] != nil || h.Object() == nil || h.Object().Exported() || isInit(h) {
					continue
				}
				sites, held := 0, true
				for caller, lr := range results {
					for _, b := range caller.Blocks {
						for _, ins := range b.Instrs {
							if call, ok := ins.(ssa.CallInstruction); ok && call.Common().StaticCallee() == h {
								sites++
								if st := lr.at[ins]; st != lsL && st != lsLD {
									held = false
								}
							}
						}
					}
				}
				if sites == 0 || !held {
					continue
				}
				// every other call site of the helper must be in an analysed function too
				all := true
				for _, caller := range c.Funcs {
					if results[caller] != nil {
						continue
					}
					for _, b := range caller.Blocks {
						for _, ins := range b.Instrs {
							if call, ok := ins.(ssa.CallInstruction); ok && call.Common().StaticCallee() == h {
								all = false
							}
						}
					}
				}
				if !all {
					continue
				}
				lr := analyseLockFrom(h, m, lsLD)
				results[h] = lr
				changed = true
				for _, is := range lr.issues {
					addBad(is.kind, fmt.Sprintf("%s in %s (%s)", is.kind, fname(h), mname), is.pos, is.msg)
				}
			}
		}
		// guarded variables
		for gn, mn := range guardedBy {
			if mn != mname {
				continue
			}
			parts := strings.SplitN(gn, ".", 2)
			g := c.Global(parts[0], parts[1])
			if g == nil {
				addBad("anchor", "guarded variable "+gn, m.Pos(), "declared guarded variable not found in the tree (undecided = fail)")
				continue
			}
			accs := c.globalAccesses(g)
			if len(accs) == 0 {
				addBad("anchor", "guarded variable "+gn, g.Pos(), "guarded variable is never accessed outside init; the cache protocol rule has nothing to check (undecided = fail)")
			}
			for _, a := range accs {
				kind := "read"
				if a.store {
					kind = "write"
				}
				lr := results[a.fn]
				st := lsU
				if lr != nil {
					st = lr.at[a.ins]
				}
				construct := fmt.Sprintf("%s of %s in %s", kind, gn, fname(a.fn))
				if st == lsL || st == lsLD {
					addOK("guarded", construct, a.ins.Pos(), mname+" is held at this access")
				} else {
					addBad("unguarded", construct, a.ins.Pos(), fmt.Sprintf("%s of %s while %s is not held (%s): data race with concurrent callers", kind, gn, mname, st))
				}
			}
			// initial value must be nil: a published entry is always one built under the lock
			for _, fn := range c.Funcs {
				if !isInit(fn) {
					continue
				}
				for _, b := range fn.Blocks {
					for _, ins := range b.Instrs {
						if st, ok := ins.(*ssa.Store); ok && st.Addr == ssa.Value(g) {
							if cst, ok := st.Val.(*ssa.Const); ok && cst.Value == nil {
								continue
							}
							addBad("init-entry", "initial value of "+gn, st.Pos(), "the cache slot is initialised with an object that was not built by the table computation; a lookup whose key equals the placeholder's zero key returns an empty entry, and only when no other call came first")
						}
					}
				}
			}
			// per locking function: keyed reuse and publish-after-build
			for _, fn := range lockers {
				cacheProtocol(c, fn, g, gn, addBad, addOK)
			}
		}
	}
	return
}

// cacheProtocol checks, in a function that locks the mutex guarding g:
//   - keyed reuse: a value loaded from g reaches a return only on paths where
//     (*g).key == parameter holds, key being the field the function stores the
//     same parameter into when it builds a new entry;
//   - publish-after-build: after the store that publishes an object into g, the
//     function performs no further write to that object (directly or by callee).
func cacheProtocol(c *Ctx, fn *ssa.Function, g *ssa.Global, gn string, addBad, addOK func(kind, construct string, pos token.Pos, msg string)) {
	isLoadOfG := func(v ssa.Value) bool {
		u, ok := throughCell(v).(*ssa.UnOp)
		return ok && u.Op == token.MUL && u.X == ssa.Value(g)
	}
	// key fields: Store(FieldAddr(alloc, f), param) in fn or in an unexported helper it calls
	group := withHelpers(c, fn)
	inGroup := map[*ssa.Function]bool{}
	for _, f := range group {
		inGroup[f] = true
	}
	keyField := map[int]bool{}
	for _, f := range group {
		for _, b := range f.Blocks {
			for _, ins := range b.Instrs {
				if st, ok := ins.(*ssa.Store); ok {
					if fa, ok := st.Addr.(*ssa.FieldAddr); ok {
						if _, ok := st.Val.(*ssa.Parameter); ok {
							if _, isAlloc := rootAlloc(fa.X).(*ssa.Alloc); isAlloc {
								keyField[fa.Field] = true
							}
						}
					}
				}
			}
		}
	}
	// of those, the key is what the cached entry is compared by
	compared := map[int]bool{}
	for _, f := range group {
		for _, b := range f.Blocks {
			for _, ins := range b.Instrs {
				bo, ok := ins.(*ssa.BinOp)
				if !ok || (bo.Op != token.EQL && bo.Op != token.NEQ) {
					continue
				}
				for _, x := range []ssa.Value{bo.X, bo.Y} {
					if ld, ok := x.(*ssa.UnOp); ok && ld.Op == token.MUL {
						if fa, ok := ld.X.(*ssa.FieldAddr); ok && isLoadOfG(fa.X) {
							compared[fa.Field] = true
						}
					}
				}
			}
		}
	}
	if len(compared) > 0 {
		for f := range keyField {
			if !compared[f] {
				delete(keyField, f)
			}
		}
	}
	// per function of the group: the blocks in which "(*g).key == one of its parameters" is known to hold
	type keyInfo struct {
		blocks map[*ssa.BasicBlock]*ssa.Parameter
	}
	infos := map[*ssa.Function]*keyInfo{}
	for _, f := range group {
		ki := &keyInfo{blocks: map[*ssa.BasicBlock]*ssa.Parameter{}}
		infos[f] = ki
		for _, b := range f.Blocks {
			if len(b.Instrs) == 0 {
				continue
			}
			iff, ok := b.Instrs[len(b.Instrs)-1].(*ssa.If)
			if !ok {
				continue
			}
			bo, ok := iff.Cond.(*ssa.BinOp)
			if !ok || (bo.Op != token.EQL && bo.Op != token.NEQ) {
				continue
			}
			match := func(x, y ssa.Value) *ssa.Parameter {
				ld, ok := x.(*ssa.UnOp)
				if !ok || ld.Op != token.MUL {
					return nil
				}
				fa, ok := ld.X.(*ssa.FieldAddr)
				if !ok || !isLoadOfG(fa.X) || !keyField[fa.Field] {
					return nil
				}
				p, _ := y.(*ssa.Parameter)
				return p
			}
			p := match(bo.X, bo.Y)
			if p == nil {
				p = match(bo.Y, bo.X)
			}
			if p != nil {
				eq := b.Succs[0]
				if bo.Op == token.NEQ {
					eq = b.Succs[1]
				}
				if len(eq.Preds) == 1 {
					ki.blocks[eq] = p
				}
			}
		}
	}
	keyParamAt := func(f *ssa.Function, b *ssa.BasicBlock) *ssa.Parameter {
		for kb, p := range infos[f].blocks {
			if kb.Dominates(b) {
				return p
			}
		}
		return nil
	}
	// returned values: walk phis (and calls of group helpers) to leaves with the block the leaf arrives
	// from; a load of g must be under the key equality with a parameter that, followed back through the
	// call chain, is a parameter of fn itself (the requested key)
	reuse, reuseOK := 0, 0
	type frame struct {
		f    *ssa.Function
		call *ssa.Call
		up   *frame
	}
	requested := func(fr *frame, p *ssa.Parameter) bool {
		for fr != nil {
			if fr.up == nil {
				return true // a parameter of fn
			}
			idx := paramIndex(fr.f, p)
			if idx < 0 || idx >= len(fr.call.Common().Args) {
				return false
			}
			q, ok := fr.call.Common().Args[idx].(*ssa.Parameter)
			if !ok {
				return false
			}
			p, fr = q, fr.up
		}
		return false
	}
	// fresh: v is an entry this call built itself with the requested key in its key field
	var fresh func(fr *frame, v ssa.Value, depth int) bool
	fresh = func(fr *frame, v ssa.Value, depth int) bool {
		if depth > 3 {
			return false
		}
		switch x := v.(type) {
		case *ssa.Phi:
			for _, e := range x.Edges {
				if !fresh(fr, e, depth+1) {
					return false
				}
			}
			return len(x.Edges) > 0
		case *ssa.Alloc:
			keyed := false
			for _, b := range fr.f.Blocks {
				for _, ins := range b.Instrs {
					st, ok := ins.(*ssa.Store)
					if !ok {
						continue
					}
					fa, ok := st.Addr.(*ssa.FieldAddr)
					if !ok || fa.X != ssa.Value(x) || !keyField[fa.Field] {
						continue
					}
					p, isP := st.Val.(*ssa.Parameter)
					if !isP || !requested(fr, p) {
						return false
					}
					keyed = true
				}
			}
			return keyed
		case *ssa.Call:
			h := x.Common().StaticCallee()
			if h == nil || !inGroup[h] || h == fr.f {
				return false
			}
			n := 0
			for _, b := range h.Blocks {
				for _, ins := range b.Instrs {
					if ret, ok := ins.(*ssa.Return); ok && len(ret.Results) == 1 {
						n++
						if !fresh(&frame{h, x, fr}, unspill(ret, ret.Results[0]), depth+1) {
							return false
						}
					}
				}
			}
			return n > 0
		}
		return false
	}
	// pathwise: on every path from the entry to the load, either the entry was just stored by this
	// call itself (built with the requested key), or nothing was stored and the key test came out equal
	storesG := func(f *ssa.Function) bool {
		for _, b := range f.Blocks {
			for _, ins := range b.Instrs {
				if st, ok := ins.(*ssa.Store); ok && st.Addr == ssa.Value(g) {
					return true
				}
			}
		}
		return false
	}
	pathwise := func(fr *frame, ld *ssa.UnOp) bool {
		for _, f := range group {
			if f != fr.f && storesG(f) {
				return false
			}
		}
		target := ld.Block()
		if target == fr.f.Blocks[0] {
			return false
		}
		paths, ok := enumPaths(fr.f.Blocks[0], func(from, to *ssa.BasicBlock) bool { return to == target }, 2000)
		if !ok {
			return false
		}
		n := 0
		for i := range paths {
			p := &paths[i]
			if p.end != target {
				continue
			}
			n++
			var last *ssa.Store
			for bi, b := range p.blocks {
				for _, ins := range b.Instrs {
					if bi == len(p.blocks)-1 && ins == ssa.Instruction(ld) {
						break
					}
					if st, ok := ins.(*ssa.Store); ok && st.Addr == ssa.Value(g) {
						last = st
					}
				}
			}
			if last != nil {
				if !fresh(fr, p.resolve(last.Val), 0) {
					return false
				}
				continue
			}
			known := false
			for _, pc := range p.conds {
				bo, ok := pc.cond.(*ssa.BinOp)
				if !ok || (bo.Op != token.EQL && bo.Op != token.NEQ) || (bo.Op == token.EQL) != pc.truth {
					continue
				}
				for _, pair := range [][2]ssa.Value{{bo.X, bo.Y}, {bo.Y, bo.X}} {
					ldk, ok := pair[0].(*ssa.UnOp)
					if !ok || ldk.Op != token.MUL {
						continue
					}
					fa, ok := ldk.X.(*ssa.FieldAddr)
					if !ok || !isLoadOfG(fa.X) || !keyField[fa.Field] {
						continue
					}
					if q, isP := pair[1].(*ssa.Parameter); isP && requested(fr, q) {
						known = true
					}
				}
			}
			if !known {
				return false
			}
		}
		return n > 0
	}
	var walk func(fr *frame, v ssa.Value, from *ssa.BasicBlock, seen map[ssa.Value]bool, retPos token.Pos, depth int)
	walk = func(fr *frame, v ssa.Value, from *ssa.BasicBlock, seen map[ssa.Value]bool, retPos token.Pos, depth int) {
		if seen[v] || depth > 4 {
			return
		}
		seen[v] = true
		if phi, ok := v.(*ssa.Phi); ok {
			for i, e := range phi.Edges {
				walk(fr, e, phi.Block().Preds[i], seen, retPos, depth)
			}
			return
		}
		if call, ok := v.(*ssa.Call); ok {
			if h := call.Common().StaticCallee(); h != nil && inGroup[h] && h != fr.f {
				for _, b := range h.Blocks {
					for _, ins := range b.Instrs {
						if ret, ok := ins.(*ssa.Return); ok {
							for _, res := range ret.Results {
								walk(&frame{h, call, fr}, unspill(ret, res), b, map[ssa.Value]bool{}, retPos, depth+1)
							}
						}
					}
				}
			}
			return
		}
		if isLoadOfG(v) {
			reuse++
			if p := keyParamAt(fr.f, from); p != nil && requested(fr, p) {
				reuseOK++
			} else if pathwise(fr, throughCell(v).(*ssa.UnOp)) {
				reuseOK++
			} else {
				addBad("stale-reuse", fmt.Sprintf("reuse of %s in %s", gn, fname(fn)), retPos,
					fmt.Sprintf("the cached entry can be returned on a path on which it was not compared with the requested key (no dominating '(*%s).key == parameter' test on the key this call was asked for): a call for one key can return the table of another, depending on call history", gn))
			}
		}
	}
	for _, b := range fn.Blocks {
		for _, ins := range b.Instrs {
			if ret, ok := ins.(*ssa.Return); ok {
				for _, res := range ret.Results {
					walk(&frame{fn, nil, nil}, unspill(ret, res), b, map[ssa.Value]bool{}, ret.Pos(), 0)
				}
			}
		}
	}
	if reuse == 0 {
		addBad("no-reuse", fmt.Sprintf("reuse of %s in %s", gn, fname(fn)), fn.Pos(), "no path on which the cached entry is returned was found: the keyed-reuse clause has nothing to check (undecided = fail)")
	}
	if reuse > 0 && reuse == reuseOK {
		addOK("keyed-reuse", fmt.Sprintf("reuse of %s in %s", gn, fname(fn)), fn.Pos(), "the cached entry reaches a return only under an equality between its key field and the requested key, or as the entry this very call has just built with that key")
	}
	// publish-after-build
	for _, b := range fn.Blocks {
		for _, ins := range b.Instrs {
			st, ok := ins.(*ssa.Store)
			if !ok || st.Addr != ssa.Value(g) {
				continue
			}
			obj := throughCell(st.Val)
			construct := fmt.Sprintf("publication into %s in %s", gn, fname(fn))
			if _, ok := obj.(*ssa.Alloc); !ok && !returnsFresh(obj, 0) {
				if cst, ok := obj.(*ssa.Const); ok && cst.Value == nil {
					continue
				}
				addBad("publish-unknown", construct, st.Pos(), "the value stored into the cache slot is not an object allocated by this function; the build/publish order cannot be established (undecided = fail)")
				continue
			}
			late := []string{}
			for _, b2 := range fn.Blocks {
				for _, i2 := range b2.Instrs {
					writes := false
					switch y := i2.(type) {
					case *ssa.Store:
						if rootAlloc(y.Addr) == obj {
							writes = true
						}
					case *ssa.Call:
						callee := y.Common().StaticCallee()
						for ai, arg := range y.Common().Args {
							if arg != obj && throughCell(arg) != obj {
								continue
							}
							if callee == nil || callee.Blocks == nil {
								writes = true
								continue
							}
							pre := fmt.Sprintf("p%d", ai)
							for _, l := range c.eff.Of(callee).Writes {
								if l.Root == pre {
									writes = true
								}
							}
						}
					}
					if writes && reachableAfter(st, i2) {
						late = append(late, c.pos(i2.Pos())+" "+describeInstr(i2))
					}
				}
			}
			if len(late) > 0 {
				sort.Strings(late)
				addBad("publish-before-build", construct, st.Pos(), "the object is stored into the shared cache slot and then still written to ("+strings.Join(late, "; ")+"): another caller can obtain a half-built entry")
			} else {
				addOK("publish-after-build", construct, st.Pos(), "no write to the published object is reachable after the publishing store")
			}
		}
	}
}

// rootAlloc follows FieldAddr/IndexAddr chains to the allocation they address.
func rootAlloc(addr ssa.Value) ssa.Value {
	for {
		switch x := addr.(type) {
		case *ssa.FieldAddr:
			addr = x.X
		case *ssa.IndexAddr:
			addr = x.X
		case *ssa.UnOp:
			// a parameter that lives in a cell because a closure captures it
			if cell, ok := x.X.(*ssa.Alloc); ok && x.Op == token.MUL {
				if v := soleStoredValue(cell); v != nil {
					if _, isParam := v.(*ssa.Parameter); isParam {
						return v
					}
				}
				// a variable that lives in a cell (a named result with a deferred call around): what it certainly
				// holds where it is read
				if !isAggregate(cell) {
					if st := cellStoreBefore(cell, x); st != nil {
						if al, isAlloc := st.Val.(*ssa.Alloc); isAlloc {
							return al
						}
					}
				}
			}
			return addr
		default:
			return addr
		}
	}
}

func r09_2(c *Ctx, r *Report) {
	const rule = "R09.2"
	r.rule(rule, "Lockset and cache protocol. For each package mutex: Lock is matched by Unlock on every path to every return, and by a deferred Unlock wherever the section contains an instruction that can panic; no double lock, no re-acquisition through callees; every read and write of the guarded variable (calendar.CACHE_YEAR) happens with the mutex held; the slot starts nil; the cached entry is reused only under an equality test between its key field and the requested key; the entry is stored into the slot only after the last write to it (no half-built entry is published).")
	bad, good, n := lockProtocol(c)
	for _, f := range good {
		r.ok(rule, f.construct, c.pos(f.pos), f.msg)
	}
	for _, f := range bad {
		r.bad(rule, f.construct, c.pos(f.pos), f.msg)
	}
	if n == 0 {
		r.bad(rule, "package mutexes", "-", "no package-level mutex found although calendar.CACHE_YEAR is declared lock-guarded (undecided = fail)")
	}
	r.floor(rule, 5)
	control(r, rule, "fx.Cached: unguarded cache read, return with the lock held, panic-prone call without deferred unlock", func(fc *Ctx) bool {
		fb, _, _ := lockProtocol(fc)
		kinds := map[string]bool{}
		for _, f := range fb {
			kinds[f.kind] = true
		}
		return kinds["unguarded"] && kinds["return-locked"] && kinds["panic-locked"] && kinds["stale-reuse"]
	})
}

// returnsFresh: v is the result of a call of a library function every return of which hands back an
// object that the callee (or, recursively, a function it calls) allocated.
func returnsFresh(v ssa.Value, depth int) bool {
	call, ok := v.(*ssa.Call)
	if !ok || depth > 3 {
		return false
	}
	callee := call.Common().StaticCallee()
	if callee == nil || callee.Blocks == nil {
		return false
	}
	n := 0
	for _, b := range callee.Blocks {
		for _, ins := range b.Instrs {
			ret, ok := ins.(*ssa.Return)
			if !ok {
				continue
			}
			if len(ret.Results) != 1 {
				return false
			}
			n++
			if _, isAlloc := ret.Results[0].(*ssa.Alloc); !isAlloc && !returnsFresh(ret.Results[0], depth+1) {
				return false
			}
		}
	}
	return n > 0
}

// unspill: in a function with a deferred call the results are spilled to a local slot and re-loaded
// after rundefers; the returned value is then the last value stored to that slot in the returning block.
// throughCell: what a variable that lives in a cell (a named result with a deferred call around) certainly
// holds where it is read; v itself when that cannot be told.
func throughCell(v ssa.Value) ssa.Value {
	for depth := 0; depth < 4; depth++ {
		ld, ok := v.(*ssa.UnOp)
		if !ok || ld.Op != token.MUL {
			return v
		}
		cell, ok := ld.X.(*ssa.Alloc)
		if !ok || isAggregate(cell) {
			return v
		}
		st := cellStoreBefore(cell, ld)
		if st == nil {
			return v
		}
		v = st.Val
	}
	return v
}

func unspill(ret *ssa.Return, v ssa.Value) ssa.Value {
	ld, ok := v.(*ssa.UnOp)
	if !ok || ld.Op != token.MUL {
		return v
	}
	slot, ok := ld.X.(*ssa.Alloc)
	if !ok || slot.Heap {
		return v
	}
	var last ssa.Value
	for _, ins := range ret.Block().Instrs {
		if ins == ssa.Instruction(ld) {
			break
		}
		if st, ok := ins.(*ssa.Store); ok && st.Addr == ssa.Value(slot) {
			last = st.Val
		}
	}
	if last != nil {
		return last
	}
	return v
}
