package main

// C15 — week arithmetic read as decision tables (R15.6) and the month step (R15.7).

import (
	"fmt"
	"go/token"
	"sort"
	"strings"

	"golang.org/x/tools/go/ssa"
)

// absDate is a civil date inside the evaluator.
type absDate struct{ y, m, d int64 }

// absStep is the result of date.NextDay(k) inside the evaluator.
type absStep struct {
	from absDate
	k    int64
}

// weekLeaf interprets the calendar calls the week arithmetic is made of: constructing a Solar
// from (y, m, d), its weekday (looked up in weekday, which the rule fills per abstract case),
// month lengths, the day count inside a month or year (the checker's own arithmetic, with the
// ten missing days of October 1582), and stepping by days.
func weekLeaf(c *Ctx, fields map[string]int64, weekday func(absDate) (int64, bool), daysOfMonth int64, daysInYear int64, problems map[string]bool, top *ssa.Function, extra leafX) leafX {
	var leaf leafX
	intArg := func(fr *evalFrame, v ssa.Value) (int64, bool) {
		o, ok := evalWith(fr, v, leaf)
		k, isI := o.(int64)
		return k, ok && isI
	}
	ord := func(y, m, d int64) int64 {
		if y == 1582 && m == 10 && d >= 15 {
			return d - 10
		}
		return d
	}
	leaf = func(fr *evalFrame, v ssa.Value) (interface{}, bool) {
		if extra != nil {
			if x, ok := extra(fr, v); ok {
				return x, true
			}
		}
		if rc, f, ok := getterField(c, v); ok {
			if ofr, o := fr.origin(rc); ofr.parent == nil && len(top.Params) > 0 && o == ssa.Value(top.Params[0]) {
				if k, ok := fields[f]; ok {
					return k, true
				}
			}
			if o, ok := evalWith(fr, rc, leaf); ok {
				if dt, isD := o.(absDate); isD {
					switch f {
					case "Solar.year":
						return dt.y, true
					case "Solar.month":
						return dt.m, true
					case "Solar.day":
						return dt.d, true
					}
				}
			}
		}
		call, ok := v.(*ssa.Call)
		if !ok || call.Common().StaticCallee() == nil {
			return nil, false
		}
		args := call.Common().Args
		ints := func(n int) ([]int64, bool) {
			if len(args) != n {
				return nil, false
			}
			var out []int64
			for _, a := range args {
				k, ok := intArg(fr, a)
				if !ok {
					return nil, false
				}
				out = append(out, k)
			}
			return out, true
		}
		switch fname(call.Common().StaticCallee()) {
		case "calendar.NewSolarFromYmd":
			if a, ok := ints(3); ok {
				return absDate{a[0], a[1], a[2]}, true
			}
		case "calendar.(*Solar).GetWeek":
			if o, ok := evalWith(fr, args[0], leaf); ok {
				if dt, isD := o.(absDate); isD {
					if w, ok := weekday(dt); ok {
						return w, true
					}
					problems[fmt.Sprintf("the weekday of %d-%d-%d is consulted", dt.y, dt.m, dt.d)] = true
				}
			}
		case "SolarUtil.GetWeek":
			if a, ok := ints(3); ok {
				if w, ok := weekday(absDate{a[0], a[1], a[2]}); ok {
					return w, true
				}
				problems[fmt.Sprintf("the weekday of %d-%d-%d is consulted", a[0], a[1], a[2])] = true
			}
		case "SolarUtil.GetDaysOfMonth":
			if a, ok := ints(2); ok {
				if a[0] == fields["y"] && a[1] == fields["m"] {
					return daysOfMonth, true
				}
				problems[fmt.Sprintf("the length of month %d-%d is consulted", a[0], a[1])] = true
			}
		case "SolarUtil.GetDaysInYear":
			if a, ok := ints(3); ok {
				if a[0] == fields["y"] && a[1] == fields["m"] && a[2] == fields["d"] && daysInYear > 0 {
					return daysInYear, true
				}
				problems[fmt.Sprintf("the day of the year of %d-%d-%d is consulted", a[0], a[1], a[2])] = true
			}
		case "SolarUtil.GetDaysBetween":
			if a, ok := ints(6); ok {
				if a[0] == a[3] && a[1] == a[4] {
					return ord(a[3], a[4], a[5]) - ord(a[0], a[1], a[2]), true
				}
				problems["a day difference across months is consulted"] = true
			}
		case "calendar.(*Solar).NextDay":
			if o, ok := evalWith(fr, args[0], leaf); ok {
				if dt, isD := o.(absDate); isD {
					if k, ok := intArg(fr, args[1]); ok {
						return absStep{dt, k}, true
					}
				}
			}
		}
		return nil, false
	}
	return leaf
}

func ceilDiv7(n int64) int64 { return (n + 6) / 7 }

func r15_6(c *Ctx, r *Report) {
	const rule = "R15.6"
	r.rule(rule, "Week arithmetic, read as decision tables. With off = (weekday of the reference day - first weekday) wrapped to 0..6: GetWeeksOfMonth = ceil((month length + off(1st)) / 7) for month lengths 21, 28..31; SolarWeek.GetIndex = ceil((ordinal of the day in its month + off(1st)) / 7), the ordinal skipping the ten missing days of October 1582; GetIndexInYear = ceil((day of the year + off(1 January)) / 7); GetFirstDay = the week's own date moved back by off(own date) days. Each function is followed by the evaluator for every weekday 0..6, every first weekday 0..6 and every day (the calendar calls are abstract inputs; no library code runs) and its result compared with the formula.")
	type caseT struct {
		name string
		y, m int64
		days []int64
		dom  int64
	}
	sortedKeys := func(m map[string]bool) []string {
		var ks []string
		for k := range m {
			ks = append(ks, k)
		}
		sort.Strings(ks)
		return ks
	}
	off := func(w, s int64) int64 { return ((w-s)%7 + 7) % 7 }
	// (a) GetWeeksOfMonth
	if fn := c.Fn(r, rule, "SolarUtil.GetWeeksOfMonth"); fn != nil && len(fn.Params) == 3 {
		problems := map[string]bool{}
		n := 0
		for _, dom := range []int64{21, 28, 29, 30, 31} {
			for w := int64(0); w < 7; w++ {
				for s := int64(0); s < 7 && len(problems) < 6; s++ {
					fields := map[string]int64{"y": 2022, "m": 5}
					ev := &evaluator{inline: inlineLibrary, leaf: weekLeaf(c, fields, func(dt absDate) (int64, bool) { return w, dt == absDate{2022, 5, 1} }, dom, 0, problems, fn, func(fr *evalFrame, v ssa.Value) (interface{}, bool) {
						if fr.parent == nil {
							switch v {
							case ssa.Value(fn.Params[0]):
								return int64(2022), true
							case ssa.Value(fn.Params[1]):
								return int64(5), true
							case ssa.Value(fn.Params[2]):
								return s, true
							}
						}
						return nil, false
					})}
					res, outcome := ev.run(fn, nil, nil, nil, nil)
					n++
					want := ceilDiv7(dom + off(w, s))
					if outcome != "return" || len(res) != 1 {
						problems["the function could not be followed: "+outcome+" "+ev.fail] = true
					} else if res[0] != interface{}(want) {
						problems[fmt.Sprintf("a %d-day month whose 1st is weekday %d, weeks starting on weekday %d: %v weeks reported, the month meets %d", dom, w, s, res[0], want)] = true
					}
				}
			}
		}
		ps := sortedKeys(problems)
		r.check(len(ps) == 0 && n == 245, rule, "SolarUtil.GetWeeksOfMonth counts the weeks that meet the month", c.fnPos(fn), fmt.Sprintf("%d cases (month length x weekday of the 1st x first weekday); deviations: %v", n, headList(ps, 3)))
	}
	// (b) GetIndex, (c) GetIndexInYear, (d) GetFirstDay
	type spec struct {
		fn   string
		what string
	}
	for _, sp := range []spec{
		{"calendar.(*SolarWeek).GetIndex", "index in the month"},
		{"calendar.(*SolarWeek).GetIndexInYear", "index in the year"},
		{"calendar.(*SolarWeek).GetFirstDay", "first day"},
	} {
		fn := c.Fn(r, rule, sp.fn)
		if fn == nil {
			continue
		}
		problems := map[string]bool{}
		n := 0
		months := []struct {
			y, m int64
			days []int64
		}{{2022, 5, nil}, {1582, 10, nil}}
		for d := int64(1); d <= 31; d++ {
			months[0].days = append(months[0].days, d)
			if d <= 4 || d >= 15 {
				months[1].days = append(months[1].days, d)
			}
		}
		for _, mo := range months {
			for _, d := range mo.days {
				for w := int64(0); w < 7; w++ {
					for s := int64(0); s < 7 && len(problems) < 6; s++ {
						ordinal := d
						if mo.y == 1582 && mo.m == 10 && d >= 15 {
							ordinal = d - 10
						}
						diy := int64(120) + ordinal // an arbitrary day of the year for this date
						fields := map[string]int64{"SolarWeek.year": mo.y, "SolarWeek.month": mo.m, "SolarWeek.day": d, "SolarWeek.start": s, "y": mo.y, "m": mo.m, "d": d}
						own := absDate{mo.y, mo.m, d}
						var ref absDate
						switch sp.what {
						case "index in the month":
							ref = absDate{mo.y, mo.m, 1}
						case "index in the year":
							ref = absDate{mo.y, 1, 1}
						default:
							ref = own
						}
						ev := &evaluator{inline: inlineLibrary, leaf: weekLeaf(c, fields, func(dt absDate) (int64, bool) { return w, dt == ref }, 31, diy, problems, fn, nil)}
						res, outcome := ev.run(fn, nil, nil, nil, nil)
						n++
						if outcome != "return" || len(res) != 1 {
							problems["the function could not be followed: "+outcome+" "+ev.fail] = true
							continue
						}
						switch sp.what {
						case "index in the month":
							if want := ceilDiv7(ordinal + off(w, s)); res[0] != interface{}(want) {
								problems[fmt.Sprintf("%d-%d-%d (day %d of its month), the 1st on weekday %d, weeks starting on weekday %d: index %v, expected %d", mo.y, mo.m, d, ordinal, w, s, res[0], want)] = true
							}
						case "index in the year":
							if want := ceilDiv7(diy + off(w, s)); res[0] != interface{}(want) {
								problems[fmt.Sprintf("day %d of the year, 1 January on weekday %d, weeks starting on weekday %d: index %v, expected %d", diy, w, s, res[0], want)] = true
							}
						default:
							st, isS := res[0].(absStep)
							if !isS || st.from != own || st.k != -off(w, s) {
								problems[fmt.Sprintf("a date on weekday %d, weeks starting on weekday %d: first day is %v, expected the date moved by %d days", w, s, res[0], -off(w, s))] = true
							}
						}
					}
				}
			}
		}
		ps := sortedKeys(problems)
		r.check(len(ps) == 0 && n > 2000, rule, sp.fn+" ("+sp.what+")", c.fnPos(fn), fmt.Sprintf("%d cases (day x weekday x first weekday, May 2022 and October 1582); deviations: %v", n, headList(ps, 3)))
	}
}

func r15_7(c *Ctx, r *Report) {
	const rule = "R15.7"
	r.rule(rule, "The month step is exact. SolarMonth.Next(n) builds the month number (12*year + month - 1 + n) split back into (year, month 1..12): followed by the evaluator for every start month 1..12 and every n in -40..40, the arguments of the NewSolarMonthFromYm call it returns are compared with that formula. Seasons, half-years and Solar.NextMonth step through this function (R15.3, R04.8).")
	fn := c.Fn(r, rule, "calendar.(*SolarMonth).Next")
	if fn == nil || len(fn.Params) != 2 {
		return
	}
	problems := map[string]bool{}
	n := 0
	for m := int64(1); m <= 12; m++ {
		for k := int64(-40); k <= 40 && len(problems) < 6; k++ {
			var leaf leafX
			leaf = func(fr *evalFrame, v ssa.Value) (interface{}, bool) {
				if fr.parent == nil && v == ssa.Value(fn.Params[1]) {
					return k, true
				}
				if rc, f, ok := getterField(c, v); ok {
					if ofr, o := fr.origin(rc); ofr.parent == nil && o == ssa.Value(fn.Params[0]) {
						switch f {
						case "SolarMonth.year":
							return int64(2022), true
						case "SolarMonth.month":
							return m, true
						}
					}
				}
				if call, ok := v.(*ssa.Call); ok && call.Common().StaticCallee() != nil && fname(call.Common().StaticCallee()) == "calendar.NewSolarMonthFromYm" {
					y, ok1 := evalWith(fr, call.Common().Args[0], leaf)
					mm, ok2 := evalWith(fr, call.Common().Args[1], leaf)
					yi, isY := y.(int64)
					mi, isM := mm.(int64)
					if ok1 && ok2 && isY && isM {
						return absDate{yi, mi, 0}, true
					}
				}
				return nil, false
			}
			ev := &evaluator{inline: inlineLibrary, leaf: leaf}
			res, outcome := ev.run(fn, nil, nil, nil, nil)
			n++
			total := 2022*12 + (m - 1) + k
			want := absDate{total / 12, total%12 + 1, 0}
			if outcome != "return" || len(res) != 1 {
				problems["the function could not be followed: "+outcome+" "+ev.fail] = true
			} else if res[0] != interface{}(want) {
				got, _ := res[0].(absDate)
				problems[fmt.Sprintf("2022-%d stepped by %d months gives %d-%d, expected %d-%d", m, k, got.y, got.m, want.y, want.m)] = true
			}
		}
	}
	var ps []string
	for k := range problems {
		ps = append(ps, k)
	}
	sort.Strings(ps)
	r.check(len(ps) == 0 && n == 12*81, rule, "calendar.(*SolarMonth).Next lands on month 12*year + month - 1 + n", c.fnPos(fn), fmt.Sprintf("%d cases (start month x n); deviations: %v", n, headList(ps, 3)))
}

func r15_8(c *Ctx, r *Report) {
	const rule = "R15.8"
	r.rule(rule, "The weeks of a month are the weeks that meet it. SolarMonth.GetWeeks (a) lists the week that contains the 1st unconditionally — the evaluator reaches its PushBack from the entry without needing anything about that week's first day, which may lie in the previous month or year — and (b) after each step of one week continues exactly when the new week's first day is still in the month: followed for a mid-year month, January and December with the next week starting in the same month, the next month, or January of the next year.")
	fn := c.Fn(r, rule, "calendar.(*SolarMonth).GetWeeks")
	if fn == nil {
		return
	}
	// a listing delegated to an unexported worker is followed there: its parameters stand for the month's own
	// year and month and for the first weekday, as the delegation passes them
	view := fn
	roles := map[*ssa.Parameter]string{}
	if d := pureDelegation(fn); d != nil && isLocalHelper(d.callee) && len(d.call.Common().Args) == len(d.callee.Params) {
		callee := d.callee
		for i, a := range d.call.Common().Args {
			if rc, f, ok := getterField(c, a); ok && rc == ssa.Value(fn.Params[0]) && (f == "SolarMonth.year" || f == "SolarMonth.month") {
				roles[callee.Params[i]] = f
			} else if len(fn.Params) == 2 && a == ssa.Value(fn.Params[1]) {
				roles[callee.Params[i]] = "start"
			}
		}
		view = callee
	}
	hasPush := func(b *ssa.BasicBlock) bool {
		for _, ins := range b.Instrs {
			if call, ok := ins.(*ssa.Call); ok && call.Common().StaticCallee() != nil && call.Common().StaticCallee().String() == "(*container/list.List).PushBack" {
				return true
			}
		}
		return false
	}
	var step *ssa.Call
	for _, b := range view.Blocks {
		for _, ins := range b.Instrs {
			if call, ok := ins.(*ssa.Call); ok && call.Common().StaticCallee() != nil && fname(call.Common().StaticCallee()) == "calendar.(*SolarWeek).Next" {
				step = call
			}
		}
	}
	constructA := "calendar.(*SolarMonth).GetWeeks lists the week of the 1st unconditionally"
	constructB := "calendar.(*SolarMonth).GetWeeks continues while the stepped week starts inside the month"
	if step == nil {
		r.bad(rule, constructB, c.fnPos(fn), "no step week.Next(1, false) found (undecided = fail)")
		return
	}
	objLeaf := func(fr *evalFrame, v ssa.Value) (interface{}, bool) {
		if call, ok := v.(*ssa.Call); ok && call.Common().StaticCallee() != nil {
			switch fname(call.Common().StaticCallee()) {
			case "calendar.NewSolarWeekFromYmd":
				return absPtr{"week of the 1st", false}, true
			case "calendar.(*SolarWeek).Next":
				return absPtr{"stepped week", false}, true
			}
			if call.Common().StaticCallee().String() == "container/list.New" {
				return absPtr{"list", false}, true
			}
		}
		return nil, false
	}
	// (a) from the entry the first push is reached whatever the week of the 1st looks like: the walk is given
	// nothing about any week's days, so a condition that consults one cannot be followed
	{
		leafA := func(fr *evalFrame, v ssa.Value) (interface{}, bool) {
			if x, ok := objLeaf(fr, v); ok {
				return x, true
			}
			if rc, f, ok := getterField(c, v); ok {
				if ofr, o := fr.origin(rc); ofr.parent == nil && o == ssa.Value(fn.Params[0]) {
					switch f {
					case "SolarMonth.year":
						return int64(2023), true
					case "SolarMonth.month":
						return int64(1), true
					}
				}
			}
			if p, ok := v.(*ssa.Parameter); ok && fr.parent == nil && len(fn.Params) == 2 && p == fn.Params[1] {
				return int64(1), true
			}
			if p, ok := v.(*ssa.Parameter); ok && fr.parent == nil {
				switch roles[p] {
				case "SolarMonth.year":
					return int64(2023), true
				case "SolarMonth.month", "start":
					return int64(1), true
				}
			}
			return nil, false
		}
		ev := &evaluator{inline: inlineLibrary, leaf: leafA}
		fr := &evalFrame{fn: view, phiFrom: map[*ssa.BasicBlock]*ssa.BasicBlock{}}
		outcome := "stop:0"
		if !hasPush(view.Blocks[0]) {
			_, outcome = ev.runFrame(fr, nil, hasPush)
		}
		pushed := ""
		if len(outcome) > 5 && outcome[:5] == "stop:" {
			var idx int
			fmt.Sscanf(outcome[5:], "%d", &idx)
			for _, ins := range view.Blocks[idx].Instrs {
				if call, ok := ins.(*ssa.Call); ok && call.Common().StaticCallee() != nil && call.Common().StaticCallee().String() == "(*container/list.List).PushBack" && pushed == "" {
					if o, ok := ev.eval(fr, unwrapIface(call.Common().Args[1]), 0); ok {
						if ptr, isP := o.(absPtr); isP {
							pushed = ptr.tag
						}
					}
				}
			}
		}
		r.check(pushed == "week of the 1st", rule, constructA, c.fnPos(fn), fmt.Sprintf("walk from the entry knowing nothing about any week's days: %s %s; first pushed: %q (a month test on the week of the 1st fails for a January whose 1st is not the first weekday: that week starts in December)", outcome, ev.fail, pushed))
	}
	// (b) a listing of as many weeks as GetWeeksOfMonth reports is decided with R15.6
	for _, b := range view.Blocks {
		iff, ok := b.Instrs[len(b.Instrs)-1].(*ssa.If)
		if !ok {
			continue
		}
		bo, ok := iff.Cond.(*ssa.BinOp)
		if !ok || bo.Op != token.LSS {
			continue
		}
		cnt, isPhi := bo.X.(*ssa.Phi)
		call, isCall := bo.Y.(*ssa.Call)
		if !isPhi || !isCall || call.Common().StaticCallee() == nil || fname(call.Common().StaticCallee()) != "SolarUtil.GetWeeksOfMonth" {
			continue
		}
		init0, step1 := false, false
		for _, e := range cnt.Edges {
			if k, ok := constInt(e); ok && k == 0 {
				init0 = true
			}
			if add, ok := e.(*ssa.BinOp); ok && add.Op == token.ADD && add.X == ssa.Value(cnt) {
				if k, ok := constInt(add.Y); ok && k == 1 {
					step1 = true
				}
			}
		}
		args := call.Common().Args
		if init0 && step1 && len(args) == 3 && view == fn && describeArg(c, fn, args[0]) == "p0.year" && describeArg(c, fn, args[1]) == "p0.month" && describeArg(c, fn, args[2]) == "p1" {
			r.ok(rule, constructB, c.pos(step.Pos()), "count-based listing: GetWeeksOfMonth(own year, own month, start) weeks from the week of the 1st, stepping one week at a time (the count is decided by R15.6)")
			return
		}
	}
	var bad []string
	n := 0
	for _, sc := range []struct {
		y, m, ny, nm int64
	}{{2023, 5, 2023, 5}, {2023, 5, 2023, 6}, {2023, 12, 2023, 12}, {2023, 12, 2024, 1}, {2023, 1, 2023, 1}, {2023, 1, 2023, 2}} {
		var leaf leafX
		leaf = func(fr *evalFrame, v ssa.Value) (interface{}, bool) {
			if x, ok := objLeaf(fr, v); ok {
				return x, true
			}
			if p, ok := v.(*ssa.Parameter); ok && fr.parent == nil {
				switch roles[p] {
				case "SolarMonth.year":
					return sc.y, true
				case "SolarMonth.month":
					return sc.m, true
				case "start":
					return int64(1), true
				}
			}
			if rc, f, ok := getterField(c, v); ok {
				if ofr, o := fr.origin(rc); ofr.parent == nil && o == ssa.Value(fn.Params[0]) {
					switch f {
					case "SolarMonth.year":
						return sc.y, true
					case "SolarMonth.month":
						return sc.m, true
					}
				}
				if o, ok := evalWith(fr, rc, leaf); ok {
					if o == interface{}(absPtr{"stepped week", false}) {
						// the stepped week's own date lies up to six days after its first day: taken in the month
						// after the listed one (the latest it can be), so that a test on it is not taken for one
						// on the first day
						oy, om := sc.ny, sc.nm
						if sc.ny == sc.y && sc.nm == sc.m {
							oy, om = sc.y+sc.m/12, sc.m%12+1
						}
						switch f {
						case "SolarWeek.year":
							return oy, true
						case "SolarWeek.month":
							return om, true
						}
					}
					if dt, isD := o.(absDate); isD {
						switch f {
						case "Solar.year":
							return dt.y, true
						case "Solar.month":
							return dt.m, true
						}
					}
				}
			}
			if call, ok := v.(*ssa.Call); ok && call.Common().StaticCallee() != nil && fname(call.Common().StaticCallee()) == "calendar.(*SolarWeek).GetFirstDay" {
				if o, ok := evalWith(fr, call.Common().Args[0], leaf); ok && o == interface{}(absPtr{"stepped week", false}) {
					return absDate{sc.ny, sc.nm, 3}, true
				}
			}
			return nil, false
		}
		ev := &evaluator{inline: inlineLibrary, leaf: leaf}
		fr := &evalFrame{fn: view, phiFrom: map[*ssa.BasicBlock]*ssa.BasicBlock{}}
		_, outcome := ev.runFrame(fr, step.Block(), hasPush)
		n++
		want := sc.y == sc.ny && sc.m == sc.nm
		switch {
		case len(outcome) > 5 && outcome[:5] == "stop:":
			if !want {
				bad = append(bad, fmt.Sprintf("month %d-%d, next week starts in %d-%d: the walk continues", sc.y, sc.m, sc.ny, sc.nm))
			}
		case outcome == "return":
			if want {
				bad = append(bad, fmt.Sprintf("month %d-%d, next week starts in %d-%d: the walk stops", sc.y, sc.m, sc.ny, sc.nm))
			}
		default:
			bad = append(bad, "the loop could not be followed: "+outcome+" "+ev.fail)
		}
	}
	r.check(len(bad) == 0 && n == 6, rule, constructB, c.pos(step.Pos()), fmt.Sprintf("%d scenarios followed from the step to the next push or the return; deviations: %v", n, headList(bad, 3)))
}

// absWeek is a week object inside the evaluator: the date it was made from and its first weekday.
type absWeek struct{ y, m, d, start int64 }

// R15.10: the month-separated walk of SolarWeek.Next.
func r15_10(c *Ctx, r *Report) {
	const rule = "R15.10"
	r.rule(rule, "Moving by month-separated weeks walks the sequence (month, week 1..k), (next month, week 1..) one position per step. SolarWeek.Next(n, true) is followed by the evaluator (its loop as a table over the iteration number; the week helpers, function literals and constructors inline or as records; civil-day stepping, weekdays and month lengths supplied by the checker's own calendar) for every day from 2021-11-20 to 2022-03-10 and from 1582-09-10 to 1582-11-30 (the month of 21 days), all seven first weekdays and n in {1, 2, 5, -1, -2, -5}: the week it returns lies in the month, and has the index in that month, that the walk states — index+1 within a month of k weeks, (next month, 1) after week k, index-1, (previous month, its last week) before week 1 — where k = ceil((days of the month + offset of its first day)/7) and the index of a day is ceil((day + offset)/7). Moving 0 weeks returns the same week.")
	fn := c.Fn(r, rule, "calendar.(*SolarWeek).Next")
	if fn == nil || len(fn.Params) != 3 {
		return
	}
	// the checker's own civil calendar: Julian up to 1582-10-04, Gregorian from 1582-10-15, as serial day numbers
	dayNo := func(y, m, d int64) int64 {
		a := (14 - m) / 12
		yy, mm := y+4800-a, m+12*a-3
		if y < 1582 || (y == 1582 && (m < 10 || (m == 10 && d < 15))) {
			return d + (153*mm+2)/5 + 365*yy + yy/4 - 32083
		}
		return d + (153*mm+2)/5 + 365*yy + yy/4 - yy/100 + yy/400 - 32045
	}
	dateOf := func(n int64) (int64, int64, int64) {
		var bb, cc int64
		if n >= 2299161 {
			a := n + 32044
			bb = (4*a + 3) / 146097
			cc = a - 146097*bb/4
		} else {
			bb, cc = 0, n+32082
		}
		dd := (4*cc + 3) / 1461
		e := cc - 1461*dd/4
		mm := (5*e + 2) / 153
		return 100*bb + dd - 4800 + mm/10, mm + 3 - 12*(mm/10), e - (153*mm+2)/5 + 1
	}
	weekdayOf := func(y, m, d int64) int64 { return (dayNo(y, m, d) + 1) % 7 }
	daysOf := func(y, m int64) int64 { return civilDaysOfMonth(y, m) }
	ordinal := func(y, m, d int64) int64 { return dayNo(y, m, d) - dayNo(y, m, 1) + 1 }
	offsetOf := func(y, m, start int64) int64 { return (weekdayOf(y, m, 1) - start + 7) % 7 }
	indexOf := func(y, m, d, start int64) int64 { return (ordinal(y, m, d) + offsetOf(y, m, start) + 6) / 7 }
	weeksOf := func(y, m, start int64) int64 { return (daysOf(y, m) + offsetOf(y, m, start) + 6) / 7 }
	validDay := func(y, m, d int64) bool {
		if m < 1 || m > 12 || d < 1 || d > 31 {
			return false
		}
		yy, mm, dd := dateOf(dayNo(y, m, d))
		return yy == y && mm == m && dd == d && !(y == 1582 && m == 10 && d > 4 && d < 15)
	}
	var bad []string
	problems := map[string]bool{}
	n := 0
	var dayNos []int64
	windows := [][2]int64{{dayNo(2021, 11, 20), dayNo(2022, 3, 10)}, {dayNo(1582, 9, 10), dayNo(1582, 11, 30)}}
	if c.Tier == "thorough" {
		// two whole years (a leap year among them) and the whole of 1582
		windows = [][2]int64{{dayNo(2023, 1, 1), dayNo(2024, 12, 31)}, {dayNo(1582, 1, 1), dayNo(1582, 12, 31)}}
	}
	for _, w := range windows {
		for k := w[0]; k <= w[1]; k++ {
			dayNos = append(dayNos, k)
		}
	}
	for _, dn := range dayNos {
		if len(bad) >= 4 || len(problems) > 0 {
			break
		}
		y0, m0, d0 := dateOf(dn)
		for start := int64(0); start < 7; start++ {
			for _, steps := range []int64{0, 1, 2, 5, -1, -2, -5} {
				var leaf leafX
				asDate := func(fr *evalFrame, v ssa.Value) (absDate, bool) {
					o, ok := evalWith(fr, v, leaf)
					dt, isD := o.(absDate)
					return dt, ok && isD
				}
				ints := func(fr *evalFrame, args []ssa.Value) ([]int64, bool) {
					var out []int64
					for _, a := range args {
						o, ok := evalWith(fr, a, leaf)
						k, isI := o.(int64)
						if !ok || !isI {
							return nil, false
						}
						out = append(out, k)
					}
					return out, true
				}
				leaf = func(fr *evalFrame, v ssa.Value) (interface{}, bool) {
					if fr.parent == nil {
						switch v {
						case ssa.Value(fn.Params[1]):
							return steps, true
						case ssa.Value(fn.Params[2]):
							return true, true
						}
					}
					if rc, f, ok := getterField(c, v); ok {
						if strings.HasPrefix(f, "SolarWeek.") {
							var w absWeek
							if ofr, o := fr.origin(rc); ofr.parent == nil && o == ssa.Value(fn.Params[0]) {
								w = absWeek{y0, m0, d0, start}
							} else if o, ok := evalWith(fr, rc, leaf); ok {
								ww, isW := o.(absWeek)
								if !isW {
									return nil, false
								}
								w = ww
							} else {
								return nil, false
							}
							switch f {
							case "SolarWeek.year":
								return w.y, true
							case "SolarWeek.month":
								return w.m, true
							case "SolarWeek.day":
								return w.d, true
							case "SolarWeek.start":
								return w.start, true
							}
							return nil, false
						}
						if strings.HasPrefix(f, "Solar.") {
							if dt, ok := asDate(fr, rc); ok {
								switch f {
								case "Solar.year":
									return dt.y, true
								case "Solar.month":
									return dt.m, true
								case "Solar.day":
									return dt.d, true
								}
							}
							return nil, false
						}
					}
					call, ok := v.(*ssa.Call)
					if !ok || call.Common().StaticCallee() == nil {
						return nil, false
					}
					args := call.Common().Args
					switch fname(call.Common().StaticCallee()) {
					case "calendar.NewSolarFromYmd":
						if a, ok := ints(fr, args); ok && len(a) == 3 {
							if !validDay(a[0], a[1], a[2]) {
								problems[fmt.Sprintf("a date that does not exist is built: %d-%d-%d", a[0], a[1], a[2])] = true
								return nil, false
							}
							return absDate{a[0], a[1], a[2]}, true
						}
						return nil, false
					case "calendar.NewSolarWeekFromYmd":
						if a, ok := ints(fr, args); ok && len(a) == 4 {
							return absWeek{a[0], a[1], a[2], a[3]}, true
						}
						return nil, false
					case "calendar.(*Solar).NextDay":
						dt, ok1 := asDate(fr, args[0])
						k, ok2 := ints(fr, args[1:])
						if ok1 && ok2 && validDay(dt.y, dt.m, dt.d) {
							ny, nm, nd := dateOf(dayNo(dt.y, dt.m, dt.d) + k[0])
							return absDate{ny, nm, nd}, true
						}
						return nil, false
					case "calendar.(*Solar).GetWeek":
						if dt, ok := asDate(fr, args[0]); ok && validDay(dt.y, dt.m, dt.d) {
							return weekdayOf(dt.y, dt.m, dt.d), true
						}
						return nil, false
					case "SolarUtil.GetWeek":
						if a, ok := ints(fr, args); ok && len(a) == 3 && validDay(a[0], a[1], a[2]) {
							return weekdayOf(a[0], a[1], a[2]), true
						}
						return nil, false
					case "SolarUtil.GetDaysOfMonth":
						if a, ok := ints(fr, args); ok && len(a) == 2 && a[1] >= 1 && a[1] <= 12 {
							return daysOf(a[0], a[1]), true
						}
						return nil, false
					case "SolarUtil.GetDaysBetween":
						if a, ok := ints(fr, args); ok && len(a) == 6 && validDay(a[0], a[1], a[2]) && validDay(a[3], a[4], a[5]) {
							return dayNo(a[3], a[4], a[5]) - dayNo(a[0], a[1], a[2]), true
						}
						return nil, false
					}
					return nil, false
				}
				ev := &evaluator{inline: inlineLibrary, leaf: leaf, counted: 64}
				res, outcome := ev.run(fn, nil, nil, nil, nil)
				n++
				// the walk, as stated
				y, m, idx := y0, m0, indexOf(y0, m0, d0, start)
				for k := steps; k != 0; {
					if k > 0 {
						if idx < weeksOf(y, m, start) {
							idx++
						} else {
							m++
							if m > 12 {
								y, m = y+1, 1
							}
							idx = 1
						}
						k--
					} else {
						if idx > 1 {
							idx--
						} else {
							m--
							if m < 1 {
								y, m = y-1, 12
							}
							idx = weeksOf(y, m, start)
						}
						k++
					}
				}
				if outcome != "return" || len(res) != 1 {
					problems["the function could not be followed: "+outcome+" "+ev.fail] = true
					continue
				}
				w, isW := res[0].(absWeek)
				if !isW {
					problems[fmt.Sprintf("the result is not a week built by NewSolarWeekFromYmd: %v", res[0])] = true
					continue
				}
				if w.y != y || w.m != m || indexOf(w.y, w.m, w.d, w.start) != idx || w.start != start {
					bad = append(bad, fmt.Sprintf("%d-%02d-%02d, weeks starting on weekday %d, %+d: week of %d-%02d-%02d (month %d-%d, week %d), stated month %d-%d, week %d", y0, m0, d0, start, steps, w.y, w.m, w.d, w.y, w.m, indexOf(w.y, w.m, w.d, w.start), y, m, idx))
				}
			}
		}
	}
	for p := range problems {
		bad = append(bad, p)
	}
	sort.Strings(bad)
	r.check(len(bad) == 0 && n > 8500, rule, "calendar.(*SolarWeek).Next(n, true) walks (month, week) positions one per step", c.fnPos(fn), fmt.Sprintf("%d cases (day x first weekday x n); deviations: %v", n, headList(bad, 3)))
}
