package main

// R12.3 (great fortunes, by evaluation) and R12.8 — the chain of fortune periods.

import (
	"fmt"
	"strings"

	"golang.org/x/tools/go/ssa"
)

// daYunChain: NewDaYun and Yun.GetDaYunBy followed with the birth year, the start year and the lunar year of the
// birth date as three different numbers.
func daYunChain(c *Ctx, r *Report, rule string) {
	const B, L, Y = int64(1981), int64(1980), int64(1988)
	want := func(i int64) map[string]int64 {
		if i < 1 {
			return map[string]int64{"DaYun.startYear": B, "DaYun.startAge": 1, "DaYun.endYear": Y - 1, "DaYun.endAge": Y - B}
		}
		sy := Y + 10*(i-1)
		return map[string]int64{"DaYun.startYear": sy, "DaYun.startAge": sy - B + 1, "DaYun.endYear": sy + 9, "DaYun.endAge": sy - B + 10}
	}
	fields := []string{"DaYun.startYear", "DaYun.startAge", "DaYun.endYear", "DaYun.endAge"}
	mkLeaf := func(fn *ssa.Function, params []interface{}) leafX {
		var leaf leafX
		leaf = func(fr *evalFrame, v ssa.Value) (interface{}, bool) {
			if p, ok := v.(*ssa.Parameter); ok && fr.parent == nil {
				for i, q := range fn.Params {
					if p == q && i < len(params) {
						return params[i], true
					}
				}
			}
			tagOf := func(x ssa.Value) string {
				if o, ok := evalWith(fr, x, leaf); ok {
					if p, isP := o.(absPtr); isP && !p.isNil {
						return p.tag
					}
				}
				return ""
			}
			if rc, f, ok := getterField(c, v); ok {
				switch t := tagOf(rc); {
				case t == "yun" && f == "Yun.lunar":
					return absPtr{"birth lunar", false}, true
				case t == "birth lunar" && f == "Lunar.solar":
					return absPtr{"birth solar", false}, true
				case t == "birth lunar" && f == "Lunar.year":
					return L, true
				case t == "birth solar" && f == "Solar.year":
					return B, true
				case t == "start solar" && f == "Solar.year":
					return Y, true
				}
			}
			if call, ok := v.(*ssa.Call); ok && call.Common().StaticCallee() != nil && fname(call.Common().StaticCallee()) == "calendar.(*Yun).GetStartSolar" && tagOf(call.Common().Args[0]) == "yun" {
				return absPtr{"start solar", false}, true
			}
			return nil, false
		}
		return leaf
	}
	// what the walk stores into the period fields, grouped by the period index stored with them
	slots := map[int64]int{} // position in the list built -> number of the object stored there (from 1)
	watch := func(ev *evaluator) *[]map[string]interface{} {
		var objs []map[string]interface{}
		byBase := map[string]int{}
		for k := range slots {
			delete(slots, k)
		}
		ev.onStore = func(fr *evalFrame, st *ssa.Store, v interface{}, ok bool) {
			if ia, isIA := st.Addr.(*ssa.IndexAddr); isIA && structName(st.Val.Type()) == "DaYun" {
				// an element of the list: which object goes where
				if kv, okK := ev.eval(fr, ia.Index, 0); okK {
					if k, isI := kv.(int64); isI {
						// the object whose construction the walk has just passed (the value stored was followed before
						// this store was reported)
						slots[k] = len(objs)
					}
				}
				return
			}
			fa, isF := st.Addr.(*ssa.FieldAddr)
			if !isF || structName(fa.X.Type()) != "DaYun" {
				return
			}
			// one object per allocation passed: the allocating instruction in the activation that ran it
			ofr, base := fr.origin(fa.X)
			key := fmt.Sprintf("%p/%p", ofr, base)
			if byBase[key] == 0 {
				objs = append(objs, map[string]interface{}{})
				byBase[key] = len(objs)
			}
			if !ok {
				v = "?"
			}
			objs[byBase[key]-1][fieldKeyOf(fa)] = v
		}
		return &objs
	}
	compare := func(obj map[string]interface{}, i int64) string {
		w := want(i)
		var diff []string
		// a field a composite literal leaves out holds zero
		for _, f := range append([]string{"DaYun.index"}, fields...) {
			if _, stored := obj[f]; !stored {
				obj[f] = int64(0)
			}
		}
		if obj["DaYun.index"] != interface{}(i) {
			diff = append(diff, fmt.Sprintf("index = %v", obj["DaYun.index"]))
		}
		for _, f := range fields {
			if obj[f] != interface{}(w[f]) {
				diff = append(diff, fmt.Sprintf("%s = %v, stated %d", strings.TrimPrefix(f, "DaYun."), obj[f], w[f]))
			}
		}
		return strings.Join(diff, "; ")
	}
	if fn := c.Fn(r, rule, "calendar.NewDaYun"); fn != nil && len(fn.Params) == 2 {
		var bad []string
		n := 0
		for _, i := range []int64{0, 1, 2, 3, 9} {
			ev := &evaluator{inline: inlineLibrary, counted: 64, effectsOnly: true}
			ev.leaf = mkLeaf(fn, []interface{}{absPtr{"yun", false}, i})
			objs := watch(ev)
			_, outcome := ev.run(fn, nil, nil, nil, nil)
			n++
			switch {
			case outcome != "return":
				bad = append(bad, fmt.Sprintf("period %d: not followed (%s %s)", i, outcome, ev.fail))
			case len(*objs) != 1:
				bad = append(bad, fmt.Sprintf("period %d: %d objects built", i, len(*objs)))
			default:
				if d := compare((*objs)[0], i); d != "" {
					bad = append(bad, fmt.Sprintf("period %d (birth year %d, fortunes start in %d): %s", i, B, Y, d))
				}
			}
		}
		r.check(len(bad) == 0 && n == 5, rule, "calendar.NewDaYun: years and ages of a period", c.fnPos(fn), fmt.Sprintf("%d periods followed (birth year %d, lunar year of birth %d, start year %d); deviations: %v", n, B, L, Y, headList(bad, 3)))
	}
	if fn := c.Fn(r, rule, "calendar.(*Yun).GetDaYunBy"); fn != nil && len(fn.Params) == 2 {
		var bad []string
		const count = 4
		ev := &evaluator{inline: inlineLibrary, counted: 64, effectsOnly: true}
		ev.leaf = mkLeaf(fn, []interface{}{absPtr{"yun", false}, int64(count)})
		objs := watch(ev)
		_, outcome := ev.run(fn, nil, nil, nil, nil)
		switch {
		case outcome != "return":
			bad = append(bad, fmt.Sprintf("not followed (%s %s)", outcome, ev.fail))
		case len(*objs) != count:
			bad = append(bad, fmt.Sprintf("%d periods built, %d asked for", len(*objs), count))
		default:
			// whatever order they are built in: position k of the list holds the period with index k
			for k := int64(0); k < count; k++ {
				n := slots[k]
				if n < 1 || n > len(*objs) {
					bad = append(bad, fmt.Sprintf("position %d of the list is not filled with a period built here", k))
					continue
				}
				if d := compare((*objs)[n-1], k); d != "" {
					bad = append(bad, fmt.Sprintf("position %d (birth year %d, lunar year of birth %d, fortunes start in %d): %s", k, B, L, Y, d))
				}
			}
		}
		r.check(len(bad) == 0, rule, "calendar.(*Yun).GetDaYunBy: the periods it lists", c.fnPos(fn), fmt.Sprintf("%d periods followed; deviations: %v", count, headList(bad, 3)))
	}
}

func r12_8(c *Ctx, r *Report) {
	const rule = "R12.8"
	r.rule(rule, "The annual and minor fortunes listed for a period cover it. DaYun.GetLiuNianBy(n) and GetXiaoYunBy(n) are followed by the evaluator (their loops as tables over the iteration number; the period's index, start and end year abstract inputs; the constructors of the entries are not entered) for the period before the first great fortune with spans of 1 to 12 years and for later periods, with n = 1, 10 and 12: the list built holds at position k the entry with index k (whatever order they are built in), each for the period itself — as many as the span (end year − start year + 1) for the period before the first fortune, whatever n, and n for a later period. A list shorter than the span leaves years between the birth and the first great fortune without annual fortune.")
	for _, u := range []struct{ fn, ctor string }{{"calendar.(*DaYun).GetLiuNianBy", "calendar.NewLiuNian"}, {"calendar.(*DaYun).GetXiaoYunBy", "calendar.NewXiaoYun"}} {
		fn := c.Fn(r, rule, u.fn)
		if fn == nil || len(fn.Params) != 2 {
			continue
		}
		var bad []string
		cases := 0
		for _, index := range []int64{0, 1, 5} {
			for span := int64(1); span <= 12; span++ {
				if index > 0 && span != 10 {
					continue
				}
				for _, n := range []int64{1, 10, 12} {
					var leaf leafX
					leaf = func(fr *evalFrame, v ssa.Value) (interface{}, bool) {
						if p, ok := v.(*ssa.Parameter); ok && fr.parent == nil {
							switch p {
							case fn.Params[0]:
								return absPtr{"period", false}, true
							case fn.Params[1]:
								return n, true
							}
						}
						if rc, f, ok := getterField(c, v); ok {
							if o, ok := evalWith(fr, rc, leaf); ok && o == interface{}(absPtr{"period", false}) {
								switch f {
								case "DaYun.index":
									return index, true
								case "DaYun.startYear":
									return int64(1980), true
								case "DaYun.endYear":
									return 1980 + span - 1, true
								case "DaYun.yun":
									return absPtr{"yun", false}, true
								}
							}
						}
						if call, ok := v.(*ssa.Call); ok && call.Common().StaticCallee() != nil {
							switch fname(call.Common().StaticCallee()) {
							case u.ctor:
								// the entry for the index it is given, of the period it is given
								if len(call.Common().Args) >= 2 {
									o, ok1 := evalWith(fr, call.Common().Args[0], leaf)
									i, ok2 := evalWith(fr, call.Common().Args[1], leaf)
									if ok1 && ok2 && o == interface{}(absPtr{"period", false}) {
										return absPtr{fmt.Sprintf("entry %v", i), false}, true
									}
								}
								return absPtr{"entry ?", false}, true
							case "calendar.(*Yun).IsForward":
								return true, true
							}
						}
						return nil, false
					}
					ev := &evaluator{leaf: leaf, inline: inlineLibrary, counted: 64, effectsOnly: true}
					// which entry goes to which position of the list, whatever order they are built in
					placed := map[int64]string{}
					ev.onStore = func(fr *evalFrame, st *ssa.Store, v interface{}, ok bool) {
						if ia, isIA := st.Addr.(*ssa.IndexAddr); isIA {
							if kv, okK := ev.eval(fr, ia.Index, 0); okK {
								if k, isI := kv.(int64); isI {
									if p, isP := v.(absPtr); ok && isP && strings.HasPrefix(p.tag, "entry ") {
										placed[k] = strings.TrimPrefix(p.tag, "entry ")
									} else {
										placed[k] = "?"
									}
								}
							}
						}
					}
					_, outcome := ev.run(fn, nil, nil, nil, nil)
					var built []string
					for k := int64(0); k < int64(len(placed)); k++ {
						if e, has := placed[k]; has {
							built = append(built, e)
						} else {
							built = append(built, "-")
						}
					}
					cases++
					count := n
					if index < 1 {
						count = span
					}
					var stated []string
					for i := int64(0); i < count; i++ {
						stated = append(stated, fmt.Sprint(i))
					}
					what := fmt.Sprintf("period %d spanning %d years, n = %d", index, span, n)
					if outcome != "return" {
						bad = append(bad, what+": not followed ("+outcome+" "+ev.fail+")")
					} else if strings.Join(built, " ") != strings.Join(stated, " ") {
						bad = append(bad, fmt.Sprintf("%s: entries built for indices [%s], stated [%s]", what, strings.Join(built, " "), strings.Join(stated, " ")))
					}
				}
			}
		}
		r.check(len(bad) == 0 && cases == 42, rule, u.fn+" lists the entries of the period", c.fnPos(fn), fmt.Sprintf("%d cases; deviations: %v", cases, headList(bad, 3)))
	}
	r.floor(rule, 2)
}
