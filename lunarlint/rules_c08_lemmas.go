package main

// Structural lemmas that connect table-shape facts (R08.5, R08.6) to the index
// sites the interval analysis cannot bound because the index comes out of float
// arithmetic or out of the packed data itself.

import (
	"fmt"
	"go/constant"
	"go/token"
	"strings"

	"golang.org/x/tools/go/ssa"
)

func (r *Report) ruleClean(rule string) bool {
	n := 0
	for _, o := range r.Obls {
		if o.Rule == rule {
			n++
			if !o.OK {
				return false
			}
		}
	}
	return n > 0
}

func isLoadOfTable(v ssa.Value, table string) bool {
	u, ok := v.(*ssa.UnOp)
	if !ok || u.Op != token.MUL {
		return false
	}
	g, ok := u.X.(*ssa.Global)
	return ok && gname(g) == table
}

// treeContains: does the expression tree of v (through arithmetic, depth-limited) contain a value satisfying pred?
func treeContains(v ssa.Value, pred func(ssa.Value) bool, depth int) bool {
	if v == nil || depth > 5 {
		return false
	}
	if pred(v) {
		return true
	}
	switch x := v.(type) {
	case *ssa.BinOp:
		return treeContains(x.X, pred, depth+1) || treeContains(x.Y, pred, depth+1)
	case *ssa.UnOp:
		return treeContains(x.X, pred, depth+1)
	case *ssa.Convert:
		return treeContains(x.X, pred, depth+1)
	case *ssa.Phi:
		for _, e := range x.Edges {
			if treeContains(e, pred, depth+2) {
				return true
			}
		}
	}
	return false
}

// scanLemma checks the sentinel-guarded scan idiom
//
//	if x < T[len-1|len-2] (possibly minus a constant) { for i := 0; i < size; i += s { if x' < T[i+s] { break } } ... T[i+k] ... }
//
// and returns the stride s and the index L of the sentinel.
func scanLemma(c *Ctx, fn *ssa.Function, table string, tabLen int64) (stride, sentinel int64, why string, ok bool) {
	stride, sentinel, _, why, ok = scanLemmaIn(c, fn, table, tabLen)
	return
}

// scanLemmaIn also accepts the scan loop in an unexported helper that fn calls with the table as
// an argument (the guard then has to dominate the call); helper is that function, or nil.
func scanLemmaIn(c *Ctx, fn *ssa.Function, table string, tabLen int64) (stride, sentinel int64, helper *ssa.Function, why string, ok bool) {
	type cand struct {
		loopFn  *ssa.Function
		isTable func(v ssa.Value) bool
		anchor  *ssa.BasicBlock // the block of fn the guard must dominate (nil: the loop header)
	}
	cands := []cand{{fn, func(v ssa.Value) bool { return isLoadOfTable(v, table) }, nil}}
	for _, b := range fn.Blocks {
		for _, ins := range b.Instrs {
			call, isCall := ins.(*ssa.Call)
			if !isCall {
				continue
			}
			h := call.Common().StaticCallee()
			if h == nil || h.Blocks == nil || h.Object() == nil || h.Object().Exported() || h.Pkg != fn.Pkg {
				continue
			}
			for i, a := range call.Common().Args {
				if isLoadOfTable(a, table) && i < len(h.Params) {
					prm := h.Params[i]
					cands = append(cands, cand{h, func(v ssa.Value) bool { return v == ssa.Value(prm) }, call.Block()})
				}
			}
		}
	}
	why = "no scan loop of the expected shape found"
	for _, cd := range cands {
		st, se, w, k := scanLemmaOne(c, fn, cd.loopFn, cd.isTable, cd.anchor, table, tabLen)
		if k {
			if cd.loopFn != fn {
				helper = cd.loopFn
			}
			return st, se, helper, "", true
		}
		if w != "no scan loop of the expected shape found" {
			why = w
			stride, sentinel = st, se
		}
	}
	return stride, sentinel, nil, why, false
}

func scanLemmaOne(c *Ctx, fn, loopFn *ssa.Function, isTable func(v ssa.Value) bool, anchor *ssa.BasicBlock, table string, tabLen int64) (stride, sentinel int64, why string, ok bool) {
	loops, _ := findLoops(loopFn)
	for _, li := range loops {
		// counter: header phi with init 0 and step +s
		var counter *ssa.Phi
		for _, ins := range li.header.Instrs {
			phi, isPhi := ins.(*ssa.Phi)
			if !isPhi {
				break
			}
			init0, step := false, int64(0)
			for i, e := range phi.Edges {
				if li.body[li.header.Preds[i]] {
					if bo, ok := e.(*ssa.BinOp); ok && bo.Op == token.ADD && bo.X == ssa.Value(phi) {
						if k, ok := bo.Y.(*ssa.Const); ok && k.Value != nil {
							step, _ = constant.Int64Val(k.Value)
						}
					}
				} else if k, ok := e.(*ssa.Const); ok && k.Value != nil {
					if v, _ := constant.Int64Val(k.Value); v == 0 {
						init0 = true
					}
				} else if p2, ok := e.(*ssa.Phi); ok {
					// i := 0 declared before an if/else chain reaches the loop as a phi of zeros
					all := true
					for _, e2 := range p2.Edges {
						k, ok := e2.(*ssa.Const)
						if !ok || k.Value == nil || constant.Sign(k.Value) != 0 {
							all = false
						}
					}
					init0 = all
				}
			}
			if init0 && step > 0 {
				counter, stride = phi, step
			}
		}
		if counter == nil {
			continue
		}
		// break test: the loop is left when x < T[i+s] (`if x < T[i+s] { break }`, or `for x >= T[i+s]`)
		found := false
		for b := range li.body {
			iff, isIf := b.Instrs[len(b.Instrs)-1].(*ssa.If)
			if !isIf {
				continue
			}
			bo, isBin := iff.Cond.(*ssa.BinOp)
			if !isBin {
				continue
			}
			exitOnTrue := !li.body[b.Succs[0]] && li.body[b.Succs[1]]
			exitOnFalse := li.body[b.Succs[0]] && !li.body[b.Succs[1]]
			if !(bo.Op == token.LSS && exitOnTrue) && !(bo.Op == token.GEQ && exitOnFalse) {
				continue
			}
			ld, isLd := bo.Y.(*ssa.UnOp)
			if !isLd || ld.Op != token.MUL {
				continue
			}
			ia, isIA := ld.X.(*ssa.IndexAddr)
			if !isIA || !isTable(ia.X) {
				continue
			}
			add, isAdd := ia.Index.(*ssa.BinOp)
			if !isAdd || add.Op != token.ADD || add.X != ssa.Value(counter) {
				continue
			}
			if k, ok := add.Y.(*ssa.Const); ok && k.Value != nil {
				if v, _ := constant.Int64Val(k.Value); v == stride {
					found = true
				}
			}
		}
		if !found {
			continue
		}
		// dominating guard against the sentinel T[len-1] or T[len-2]
		for _, b := range fn.Blocks {
			iff, isIf := b.Instrs[len(b.Instrs)-1].(*ssa.If)
			if !isIf {
				continue
			}
			bo, isBin := iff.Cond.(*ssa.BinOp)
			if !isBin || (bo.Op != token.LSS && bo.Op != token.GEQ) {
				continue
			}
			var off int64 = -1
			isSentinel := func(v ssa.Value) bool {
				ld, ok := v.(*ssa.UnOp)
				if !ok || ld.Op != token.MUL {
					return false
				}
				ia, ok := ld.X.(*ssa.IndexAddr)
				if !ok || !isLoadOfTable(ia.X, table) {
					return false
				}
				sub, ok := ia.Index.(*ssa.BinOp)
				if !ok || sub.Op != token.SUB {
					return false
				}
				call, ok := sub.X.(*ssa.Call)
				if !ok {
					return false
				}
				if bi, ok := call.Common().Value.(*ssa.Builtin); !ok || bi.Name() != "len" || !isLoadOfTable(call.Common().Args[0], table) {
					return false
				}
				k, ok := sub.Y.(*ssa.Const)
				if !ok || k.Value == nil {
					return false
				}
				off, _ = constant.Int64Val(k.Value)
				return true
			}
			if !treeContains(bo.Y, isSentinel, 0) {
				continue
			}
			guardSucc := b.Succs[0]
			if bo.Op == token.GEQ {
				guardSucc = b.Succs[1]
			}
			target := li.header
			if anchor != nil {
				target = anchor
			}
			if len(guardSucc.Preds) == 1 && guardSucc.Dominates(target) {
				sentinel = tabLen - off
				if sentinel%stride != 0 {
					return stride, sentinel, fmt.Sprintf("sentinel index %d is not a multiple of the stride %d", sentinel, stride), false
				}
				return stride, sentinel, "", true
			}
		}
		return stride, 0, "no dominating comparison against the last breakpoint of the table", false
	}
	return 0, 0, "no scan loop of the expected shape found", false
}

type lemmaSet map[string]string // key -> class text

// ephemerisLemmas establishes, as R08.6 obligations, the lemmas R08.3 may use.
func ephemerisLemmas(c *Ctx, r *Report, rule string) lemmaSet {
	ls := lemmaSet{}
	e := c.ranges()
	for _, t := range [][2]string{{"ShouXingUtil.CalcShuo", "ShouXingUtil.SHUO_KB"}, {"ShouXingUtil.CalcQi", "ShouXingUtil.QI_KB"}, {"ShouXingUtil.dtCalc", "ShouXingUtil.DT_AT"}} {
		fn := c.Fn(r, rule, t[0])
		if fn == nil {
			continue
		}
		stride, sentinel, helper, why, ok := scanLemmaIn(c, fn, t[1], e.tabLen[t[1]])
		construct := fmt.Sprintf("sentinel-guarded scan of %s in %s", t[1], t[0])
		if ok {
			r.ok(rule, construct, c.fnPos(fn), fmt.Sprintf("scan with stride %d breaks at the latest at index %d, which the dominating guard compares against; later uses index at most %d", stride, sentinel, sentinel))
			ls["scan|"+t[0]+"|"+t[1]] = fmt.Sprintf("%d|%d", stride, sentinel)
			if helper != nil {
				ls["scanhelper|"+t[0]+"|"+t[1]] = fname(helper)
			}
		} else if t[0] == "ShouXingUtil.dtCalc" && dtCalcWalkOK(c) {
			// the scan is not written in the recognised form (its reads may sit in a function literal), but the function
			// looks at the year only through comparisons with knots, and it was followed for every ordering of the year
			// against them (R03.9): every read stayed inside the table
			r.ok(rule, construct, c.fnPos(fn), "not in the recognised form ("+why+"); followed for a year below the first knot, on each knot, between each two and beyond the last (R03.9): no read outside the table").Class = "TABLE"
			ls["walk|"+t[0]+"|"+t[1]] = "ok"
		} else {
			r.bad(rule, construct, c.fnPos(fn), "the scan over the breakpoint table is not (recognisably) protected by a comparison with its last breakpoint: "+why)
		}
	}
	// eLon: j := int(XL0[pn+i]); j < m (m clamped to int(XL0[pn+1+i])); j += 3
	if fn := c.Fn(r, rule, "ShouXingUtil.eLon"); fn != nil {
		ok := false
		loops, _ := findLoops(fn)
		for _, li := range loops {
			for _, ins := range li.header.Instrs {
				phi, isPhi := ins.(*ssa.Phi)
				if !isPhi {
					break
				}
				fromTable, step3 := false, false
				for i, ed := range phi.Edges {
					if li.body[li.header.Preds[i]] {
						if bo, ok := ed.(*ssa.BinOp); ok && bo.Op == token.ADD && bo.X == ssa.Value(phi) {
							if k, ok := bo.Y.(*ssa.Const); ok && k.Value != nil {
								if v, _ := constant.Int64Val(k.Value); v == 3 {
									step3 = true
								}
							}
						}
					} else if cv, ok := ed.(*ssa.Convert); ok {
						fromTable = treeContains(cv.X, func(v ssa.Value) bool {
							ld, ok := v.(*ssa.UnOp)
							if !ok || ld.Op != token.MUL {
								return false
							}
							ia, ok := ld.X.(*ssa.IndexAddr)
							return ok && isLoadOfTable(ia.X, "ShouXingUtil.XL0")
						}, 0)
					}
				}
				if fromTable && step3 {
					ok = true
				}
			}
		}
		r.check(ok, rule, "strided block scan of ShouXingUtil.XL0 in ShouXingUtil.eLon", c.fnPos(fn), "the inner loop starts at an offset read from the XL0 header and advances by 3, the stride the header check (offsets inside the table, block lengths divisible by 3) is about")
		if ok {
			ls["xl0|ShouXingUtil.eLon"] = "ok"
		}
	}
	return ls
}

// lemmaClass returns the proof class of a table site that the interval analysis
// left unproven, when a data/shape lemma covers it; "" otherwise.
func lemmaClass(c *Ctx, r *Report, s tableSite, ls lemmaSet) string {
	fn := fname(s.fn)
	e := c.ranges()
	// decoders: codes parsed out of the packed tables
	if s.kind == "index" && (s.table == "LunarUtil.yiJi" || s.table == "LunarUtil.shenSha") {
		v := s.idx
		if cv, ok := v.(*ssa.Convert); ok {
			v = cv.X
		}
		if ex, ok := v.(*ssa.Extract); ok && ex.Index == 0 {
			if call, ok := ex.Tuple.(*ssa.Call); ok {
				if callee := call.Common().StaticCallee(); callee != nil && callee.String() == "strconv.ParseInt" {
					if b, ok := call.Common().Args[1].(*ssa.Const); ok && b.Value != nil {
						if k, _ := constant.Int64Val(b.Value); k == 16 {
							if !r.ruleClean("R08.5") {
								return "BLOCKED:R08.5"
							}
							return "PROVEN-UNDER(R08.5 data lemma: every two-digit code of the packed tables is below the length of the name table)"
						}
					}
				}
			}
		}
	}
	if s.kind == "slice" && (s.table == "LunarUtil.dayShenSha" || s.table == "LunarUtil.timeYiJi" || s.table == "LunarUtil.dayYiJi") && s.hi == nil {
		if add, ok := s.lo.(*ssa.BinOp); ok && add.Op == token.ADD {
			if call, ok := add.X.(*ssa.Call); ok {
				if callee := call.Common().StaticCallee(); callee != nil && callee.String() == "strings.Index" && isLoadOfTable(call.Common().Args[0], s.table) {
					lo := e.obsAt(s.fn, s.ins, s.lo)
					if k, ok := add.Y.(*ssa.Const); ok && k.Value != nil && !lo.bot {
						kk, _ := constant.Int64Val(k.Value)
						if lo.lo() >= kk {
							if !r.ruleClean("R08.5") {
								return "BLOCKED:R08.5"
							}
							return "PROVEN-UNDER(R08.5 data lemma: the key was found (index >= 0 on this path) and every record is longer than its key)"
						}
					}
				}
			}
		}
	}
	{
		top := s.fn
		for top.Parent() != nil {
			top = top.Parent()
		}
		if _, ok := ls["walk|"+fname(top)+"|"+s.table]; ok && s.kind == "index" {
			return "PROVEN-UNDER(R03.9 walk: the function was followed for every ordering of the year against the knots and read only inside the table)"
		}
	}
	if v, ok := ls["scan|"+fn+"|"+s.table]; ok && s.kind == "index" {
		var stride, sentinel int64
		fmt.Sscanf(strings.Replace(v, "|", " ", 1), "%d %d", &stride, &sentinel)
		// index = counter + k with 0 <= k <= stride, counter <= sentinel - stride
		k := int64(0)
		idx := s.idx
		if add, ok := idx.(*ssa.BinOp); ok && add.Op == token.ADD {
			if cst, ok := add.Y.(*ssa.Const); ok && cst.Value != nil {
				k, _ = constant.Int64Val(cst.Value)
				idx = add.X
			}
		}
		_, isCounter := idx.(*ssa.Phi)
		if call, isCall := idx.(*ssa.Call); isCall && call.Common().StaticCallee() != nil && fname(call.Common().StaticCallee()) == ls["scanhelper|"+fn+"|"+s.table] {
			isCounter = true // the counter as returned by the scan helper
		}
		if isCounter && k >= 0 && k <= stride && sentinel < e.tabLen[s.table] {
			return fmt.Sprintf("PROVEN-UNDER(R08.6 scan lemma: counter <= %d, offset %d, table length %d)", sentinel-stride, k, e.tabLen[s.table])
		}
	}
	if s.kind == "slice" && ((fn == "ShouXingUtil.CalcShuo" && s.table == "ShouXingUtil.SB") || (fn == "ShouXingUtil.CalcQi" && s.table == "ShouXingUtil.QB")) {
		name := strings.TrimPrefix(s.table, "ShouXingUtil.")
		for _, o := range r.Obls {
			if o.Rule == "R08.6" && o.Construct == "ShouXingUtil."+name+" length covers the regime" && o.OK {
				return "PROVEN-UNDER(R08.6 length lemma: the decoded correction string is longer than the largest index reachable in the low-precision regime)"
			}
		}
	}
	if _, ok := ls["xl0|"+fn]; ok && s.table == "ShouXingUtil.XL0" && s.kind == "index" {
		for _, o := range r.Obls {
			if o.Rule == "R08.6" && o.Construct == "ShouXingUtil.XL0 index header" && o.OK {
				return "PROVEN-UNDER(R08.6 XL0 header lemma: block offsets are inside the table and block lengths are multiples of 3)"
			}
		}
	}
	return ""
}

// dtCalcWalkOK: R03.9's walk of dtCalc over every ordering of the year against the knots (run once per tree).
func dtCalcWalkOK(c *Ctx) bool {
	if !c.dtCalcRun {
		if fn := c.FuncBy["ShouXingUtil.dtCalc"]; fn != nil {
			dtCalcTable(c, newReport("C03"), "R03.9", fn)
		}
	}
	return c.dtCalcOK
}
