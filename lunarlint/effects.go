package main

// E2: effects analysis.
//
// For a function (optionally specialised on constant arguments, with branches on
// those constants pruned) compute, transitively through statically resolved
// callees:
//   - the memory locations read and written, as access paths rooted at a
//     parameter ("p0.lunar.solar.year"), a package variable ("g:LunarUtil.GAN[]"),
//     an object allocated during the activation ("a:Lunar.year") or some other
//     object ("o:LunarMonth.year");
//   - lookups into maps with constant keys ("p0.jieQi[冬至]");
//   - library and external functions called, types allocated, explicit panics;
//   - the origin of the returned value (so that getters such as GetSolar(),
//     GetLunar(), GetJieQiTable() are transparent).
//
// Callees are resolved through the type-checked program (StaticCallee), never by
// name. Dynamic calls are recorded; rules that need completeness fail on them.

import (
	"fmt"
	"go/constant"
	"go/token"
	"go/types"
	"regexp"
	"sort"
	"strings"

	"golang.org/x/tools/go/ssa"
)

type Loc struct {
	Root string // "p<i>", "g:<Pkg.Var>", "a", "o"
	Path string // ".lunar.solar.year", ".jieQi[冬至]", "[]" (dropped for roots a/o)
	Flat string // "Lunar.year": declaring struct and field of the last component; global name; "elem:<type>"
	Pos  token.Pos
	Via  string // function in which the access occurs syntactically
}

func (l Loc) Key() string {
	if l.Root == "a" || l.Root == "o" {
		return l.Root + ":" + l.Flat + "@" + l.Via
	}
	return l.Root + l.Path
}

type Origin struct {
	Root string
	Path string
}

type Effects struct {
	Fn        *ssa.Function
	Bind      string
	Reads     map[string]Loc
	Writes    map[string]Loc
	Calls     map[string]token.Pos // library callees (transitive), by fname
	Ext       map[string]token.Pos // external callees (transitive), by full name
	Allocs    map[string]token.Pos // struct types allocated (transitive)
	Panics    map[string]token.Pos // explicit panic sites (transitive), by function
	Dyn       map[string]token.Pos // unresolved dynamic calls
	Unknown   map[string]token.Pos // external callees the engine has no model for
	RangeMap  map[string]token.Pos // range-over-map sites
	Ret       *Origin
	Recursion bool
}

func newEffects(fn *ssa.Function, bind string) *Effects {
	return &Effects{Fn: fn, Bind: bind, Reads: map[string]Loc{}, Writes: map[string]Loc{}, Calls: map[string]token.Pos{},
		Ext: map[string]token.Pos{}, Allocs: map[string]token.Pos{}, Panics: map[string]token.Pos{}, Dyn: map[string]token.Pos{},
		Unknown: map[string]token.Pos{}, RangeMap: map[string]token.Pos{}}
}

type effEngine struct {
	c        *Ctx
	memo     map[string]*Effects
	progress map[string]bool
	envs     []*ssa.MakeClosure // closures whose bindings are referred to by env:<i>:<k> roots
}

func newEffEngine(c *Ctx) *effEngine {
	return &effEngine{c: c, memo: map[string]*Effects{}, progress: map[string]bool{}}
}

// closureBind adds, under the keys -1, -2, ..., the constants held by the cells a closure captured
// (a captured variable that the enclosing function stores once, with a value that is constant under
// the enclosing function's own bindings).
func (a *effAnalysis) closureBind(common *ssa.CallCommon, bind map[int]constant.Value) {
	mc, ok := common.Value.(*ssa.MakeClosure)
	if !ok {
		return
	}
	for i, b := range mc.Bindings {
		cell, ok := b.(*ssa.Alloc)
		if !ok || cell.Referrers() == nil {
			continue
		}
		var stored ssa.Value
		cnt := 0
		for _, ref := range *cell.Referrers() {
			if st, ok := ref.(*ssa.Store); ok && st.Addr == ssa.Value(cell) {
				stored = st.Val
				cnt++
			}
		}
		if cnt == 1 {
			if cv := a.evalConst(stored); cv != nil {
				bind[-(i + 1)] = cv
			}
		}
	}
}

func bindKey(bind map[int]constant.Value) string {
	if len(bind) == 0 {
		return ""
	}
	var ks []int
	for k := range bind {
		ks = append(ks, k)
	}
	sort.Ints(ks)
	var sb strings.Builder
	for _, k := range ks {
		fmt.Fprintf(&sb, "%d=%s;", k, bind[k].ExactString())
	}
	return sb.String()
}

func (e *effEngine) Of(fn *ssa.Function) *Effects { return e.With(fn, nil) }

func (e *effEngine) With(fn *ssa.Function, bind map[int]constant.Value) *Effects {
	return e.WithF(fn, bind, nil)
}

func fbindKey(fbind map[int][]funcVal_) string {
	if len(fbind) == 0 {
		return ""
	}
	var ks []int
	for k := range fbind {
		ks = append(ks, k)
	}
	sort.Ints(ks)
	var sb strings.Builder
	for _, k := range ks {
		fmt.Fprintf(&sb, "%d=", k)
		for _, f := range fbind[k] {
			sb.WriteString(f.fn.String())
			if f.mc != nil {
				fmt.Fprintf(&sb, "@%s:%d", f.mc.Parent().String(), f.mc.Pos())
			}
			sb.WriteString(",")
		}
		sb.WriteString(";")
	}
	return sb.String()
}

// WithF: the effects of fn specialised to constant arguments (bind) and to the functions its
// function-valued parameters (or parameters that are arrays or slices of functions) can denote at one
// call site (fbind).
func (e *effEngine) WithF(fn *ssa.Function, bind map[int]constant.Value, fbind map[int][]funcVal_) *Effects {
	return e.WithFL(fn, bind, fbind, nil)
}

// WithFL: additionally specialised to the results the caller uses (liveRes[i] false: the i-th result is
// discarded at this call site): a load that only feeds discarded results is not a read of this call.
func (e *effEngine) WithFL(fn *ssa.Function, bind map[int]constant.Value, fbind map[int][]funcVal_, liveRes []bool) *Effects {
	key := fname(fn) + "|" + bindKey(bind)
	if fk := fbindKey(fbind); fk != "" {
		key += "|f:" + fk
	}
	if liveRes != nil {
		key += fmt.Sprintf("|live:%v", liveRes)
	}
	if r, ok := e.memo[key]; ok {
		return r
	}
	if e.progress[key] {
		r := newEffects(fn, bindKey(bind))
		r.Recursion = true
		return r
	}
	e.progress[key] = true
	a := &effAnalysis{e: e, fn: fn, bind: bind, fbind: fbind, liveRes: liveRes, res: newEffects(fn, bindKey(bind)), orig: map[ssa.Value]Origin{}, consts: map[ssa.Value]constant.Value{}}
	a.run()
	delete(e.progress, key)
	e.memo[key] = a.res
	return a.res
}

type effAnalysis struct {
	e        *effEngine
	fn       *ssa.Function
	bind     map[int]constant.Value
	fbind    map[int][]funcVal_
	liveRes  []bool             // which results the caller uses (nil: all)
	deadLoad map[*ssa.UnOp]bool // loads that only feed discarded results
	deadCall map[*ssa.Call]bool // pure calls that only feed discarded results
	curMC    *ssa.MakeClosure   // the closure whose body is being merged (its bindings are what fv<i> roots denote)
	res      *Effects
	orig     map[ssa.Value]Origin
	consts   map[ssa.Value]constant.Value
	reach    map[*ssa.BasicBlock]bool
	rets     []Origin
	retMixed bool
}

// evalConst evaluates an SSA value to a constant under the parameter bindings.
func (a *effAnalysis) evalConst(v ssa.Value) constant.Value {
	return evalConstWith(v, a.fn, a.bind, 0)
}

func evalConstWith(v ssa.Value, fn *ssa.Function, bind map[int]constant.Value, depth int) constant.Value {
	if depth > 8 {
		return nil
	}
	switch x := v.(type) {
	case *ssa.Const:
		if x.Value == nil {
			return nil
		}
		return x.Value
	case *ssa.Extract:
		// found / not found of a lookup with a constant key in a map the function writes as a literal with constant keys
		if lk, ok := x.Tuple.(*ssa.Lookup); ok && lk.CommaOk {
			if mm, ok := lk.X.(*ssa.MakeMap); ok && mm.Referrers() != nil {
				key := evalConstWith(lk.Index, fn, bind, depth+1)
				if key == nil {
					return nil
				}
				found := false
				var val ssa.Value
				for _, ref := range *mm.Referrers() {
					switch y := ref.(type) {
					case *ssa.MapUpdate:
						k := evalConstWith(y.Key, fn, bind, depth+1)
						if k == nil {
							return nil
						}
						if constant.Compare(k, token.EQL, key) {
							found, val = true, y.Value
						}
					case *ssa.Lookup, *ssa.DebugRef:
					default:
						return nil
					}
				}
				if x.Index == 1 {
					return constant.MakeBool(found)
				}
				if found {
					return evalConstWith(val, fn, bind, depth+1)
				}
			}
		}
		return nil
	case *ssa.Parameter:
		for i, p := range fn.Params {
			if p == x {
				if c, ok := bind[i]; ok {
					return c
				}
			}
		}
		return nil
	case *ssa.BinOp:
		l := evalConstWith(x.X, fn, bind, depth+1)
		r := evalConstWith(x.Y, fn, bind, depth+1)
		if l == nil || r == nil {
			return nil
		}
		switch x.Op {
		case token.EQL, token.NEQ, token.LSS, token.LEQ, token.GTR, token.GEQ:
			if l.Kind() != r.Kind() && !(isNumKind(l) && isNumKind(r)) {
				return nil
			}
			return constant.MakeBool(constant.Compare(l, x.Op, r))
		case token.ADD, token.SUB, token.MUL:
			if isNumKind(l) && isNumKind(r) || (l.Kind() == constant.String && r.Kind() == constant.String && x.Op == token.ADD) {
				return constant.BinaryOp(l, x.Op, r)
			}
		case token.QUO:
			if l.Kind() == constant.Int && r.Kind() == constant.Int && constant.Sign(r) != 0 {
				return constant.BinaryOp(l, token.QUO_ASSIGN, r)
			}
		case token.REM:
			if l.Kind() == constant.Int && r.Kind() == constant.Int && constant.Sign(r) != 0 {
				return constant.BinaryOp(l, token.REM, r)
			}
		}
		return nil
	case *ssa.UnOp:
		if x.Op == token.MUL {
			// a variable captured by the closure whose cell holds a constant
			if fv, ok := x.X.(*ssa.FreeVar); ok {
				for i, f := range fn.FreeVars {
					if f == fv {
						if c, ok := bind[-(i + 1)]; ok {
							return c
						}
					}
				}
			}
			// a local cell that is stored once (a parameter spilled because a closure captures it)
			if cell, ok := x.X.(*ssa.Alloc); ok && cell.Referrers() != nil {
				var stored ssa.Value
				cnt := 0
				for _, ref := range *cell.Referrers() {
					if st, ok := ref.(*ssa.Store); ok && st.Addr == ssa.Value(cell) {
						stored = st.Val
						cnt++
					}
				}
				if cnt == 1 {
					return evalConstWith(stored, fn, bind, depth+1)
				}
			}
			return nil
		}
		if x.Op == token.NOT {
			if c := evalConstWith(x.X, fn, bind, depth+1); c != nil && c.Kind() == constant.Bool {
				return constant.MakeBool(!constant.BoolVal(c))
			}
		}
		if x.Op == token.SUB {
			if c := evalConstWith(x.X, fn, bind, depth+1); c != nil && isNumKind(c) {
				return constant.UnaryOp(token.SUB, c, 0)
			}
		}
		return nil
	case *ssa.Phi:
		var first constant.Value
		for _, e := range x.Edges {
			c := evalConstWith(e, fn, bind, depth+1)
			if c == nil {
				return nil
			}
			if first == nil {
				first = c
			} else if !constant.Compare(first, token.EQL, c) {
				return nil
			}
		}
		return first
	case *ssa.Convert:
		return nil
	}
	return nil
}

func isNumKind(c constant.Value) bool { return c.Kind() == constant.Int || c.Kind() == constant.Float }

// reachableBlocks prunes branches whose condition is constant under the bindings.
func reachableBlocks(fn *ssa.Function, bind map[int]constant.Value) map[*ssa.BasicBlock]bool {
	reach := map[*ssa.BasicBlock]bool{}
	if len(fn.Blocks) == 0 {
		return reach
	}
	work := []*ssa.BasicBlock{fn.Blocks[0]}
	if fn.Recover != nil {
		work = append(work, fn.Recover)
	}
	for len(work) > 0 {
		b := work[len(work)-1]
		work = work[:len(work)-1]
		if reach[b] {
			continue
		}
		reach[b] = true
		if len(b.Instrs) == 0 {
			continue
		}
		if iff, ok := b.Instrs[len(b.Instrs)-1].(*ssa.If); ok && len(bind) > 0 {
			if cv := evalConstWith(iff.Cond, fn, bind, 0); cv != nil && cv.Kind() == constant.Bool {
				if constant.BoolVal(cv) {
					work = append(work, b.Succs[0])
				} else {
					work = append(work, b.Succs[1])
				}
				continue
			}
		}
		work = append(work, b.Succs...)
	}
	return reach
}

// findDeadLoads: with some results discarded, the loads outside the backward slice of everything else the
// function does (live results, stores, calls, panics, branch conditions).
func (a *effAnalysis) findDeadLoads() {
	needed := map[ssa.Value]bool{}
	var work []ssa.Value
	need := func(v ssa.Value) {
		if v != nil && !needed[v] {
			needed[v] = true
			work = append(work, v)
		}
	}
	// an edge into a merge is feasible when its source is reached and, if it ends in a branch whose condition is
	// constant under the bindings, the branch goes that way
	feasible := func(pred, to *ssa.BasicBlock) bool {
		if a.reach != nil && !a.reach[pred] {
			return false
		}
		if iff, ok := pred.Instrs[len(pred.Instrs)-1].(*ssa.If); ok && pred.Succs[0] != pred.Succs[1] && len(a.bind) > 0 {
			if cv := evalConstWith(iff.Cond, a.fn, a.bind, 0); cv != nil && cv.Kind() == constant.Bool {
				want := pred.Succs[1]
				if constant.BoolVal(cv) {
					want = pred.Succs[0]
				}
				return want == to
			}
		}
		return true
	}
	// local tables: an array this activation allocates, filled element by element at constant positions and read only
	// through element addresses (of the array or of the whole of it sliced); an element's filling is needed only
	// when a needed read can be of that element
	type tableInfo struct {
		fills  map[int64][]*ssa.Store
		all    bool // some read's position is not constant under the bindings: every element is needed
		wanted map[int64]bool
	}
	tables := map[*ssa.Alloc]*tableInfo{}
	tableOf := func(v ssa.Value) *ssa.Alloc {
		if sl, ok := v.(*ssa.Slice); ok && sl.Low == nil && sl.High == nil && sl.Max == nil {
			v = sl.X
		}
		al, _ := v.(*ssa.Alloc)
		if al != nil && tables[al] != nil {
			return al
		}
		return nil
	}
	for _, b := range a.fn.Blocks {
		for _, ins := range b.Instrs {
			al, ok := ins.(*ssa.Alloc)
			if !ok || al.Referrers() == nil {
				continue
			}
			if _, isArr := al.Type().Underlying().(*types.Pointer).Elem().Underlying().(*types.Array); !isArr {
				continue
			}
			info := &tableInfo{fills: map[int64][]*ssa.Store{}, wanted: map[int64]bool{}}
			okTable := true
			var check func(v ssa.Value, whole bool)
			check = func(v ssa.Value, whole bool) {
				refs := v.Referrers()
				if refs == nil {
					return
				}
				for _, ref := range *refs {
					switch x := ref.(type) {
					case *ssa.IndexAddr:
						if x.X != v {
							okTable = false
							continue
						}
						for _, r2 := range *x.Referrers() {
							switch y := r2.(type) {
							case *ssa.Store:
								k, isK := constInt(x.Index)
								if y.Addr != ssa.Value(x) || !isK || !whole {
									okTable = false
								} else {
									info.fills[k] = append(info.fills[k], y)
								}
							case *ssa.UnOp:
								if y.Op != token.MUL {
									okTable = false
								}
							case *ssa.DebugRef:
							default:
								okTable = false
							}
						}
					case *ssa.Slice:
						if x.X != v || x.Low != nil || x.High != nil || x.Max != nil {
							okTable = false
							continue
						}
						check(x, false)
					case *ssa.UnOp:
						// the whole array read as a value (to be stored as one entry of a map, say): all of it is then wanted
						if x.Op != token.MUL || x.X != v || !whole {
							okTable = false
						}
					case *ssa.DebugRef:
					default:
						okTable = false
					}
				}
			}
			check(al, true)
			if okTable && len(info.fills) > 0 {
				tables[al] = info
			}
		}
	}
	// local maps: a map this activation makes and fills entry by entry at constant keys, looked up and never handed
	// on; an entry's filling is needed only when a needed lookup can be of that key
	localMaps := map[*ssa.MakeMap][]*ssa.MapUpdate{}
	for _, b := range a.fn.Blocks {
		for _, ins := range b.Instrs {
			mm, ok := ins.(*ssa.MakeMap)
			if !ok || mm.Referrers() == nil {
				continue
			}
			var ups []*ssa.MapUpdate
			okMap := true
			for _, ref := range *mm.Referrers() {
				switch y := ref.(type) {
				case *ssa.MapUpdate:
					if kc, isK := y.Key.(*ssa.Const); y.Map != ssa.Value(mm) || !isK || kc.Value == nil {
						okMap = false
					} else {
						ups = append(ups, y)
					}
				case *ssa.Lookup:
					if y.X != ssa.Value(mm) {
						okMap = false
					}
				case *ssa.DebugRef:
				default:
					okMap = false
				}
			}
			if okMap && len(ups) > 0 {
				localMaps[mm] = ups
			}
		}
	}
	wantedKeys := map[*ssa.MakeMap]map[string]bool{}
	isFill := func(st *ssa.Store) bool {
		ia, ok := st.Addr.(*ssa.IndexAddr)
		if !ok {
			return false
		}
		al, _ := ia.X.(*ssa.Alloc)
		return al != nil && tables[al] != nil
	}
	for _, b := range a.fn.Blocks {
		if a.reach != nil && !a.reach[b] {
			continue
		}
		for _, ins := range b.Instrs {
			switch x := ins.(type) {
			case *ssa.Return:
				for i, r := range x.Results {
					if a.liveRes == nil || i >= len(a.liveRes) || a.liveRes[i] {
						need(r)
					}
				}
			case *ssa.Phi, *ssa.BinOp, *ssa.UnOp, *ssa.Convert, *ssa.ChangeType, *ssa.FieldAddr, *ssa.IndexAddr, *ssa.Index, *ssa.Field, *ssa.Extract, *ssa.Slice, *ssa.MakeInterface, *ssa.Lookup, *ssa.Alloc, *ssa.DebugRef:
				// pure values: needed only when something needed uses them
			case *ssa.Store:
				if isFill(x) {
					break // the filling of a local table: needed only when the element can be read
				}
				need(x.Addr)
				need(x.Val)
			case *ssa.MakeMap:
				// pure: needed only when a lookup in it is
			case *ssa.MapUpdate:
				if mm, isLocal := x.Map.(*ssa.MakeMap); isLocal && localMaps[mm] != nil {
					break // the filling of a local map: needed only when the entry can be looked up
				}
				need(x.Map)
				need(x.Key)
				need(x.Value)
			case *ssa.Call:
				if a.pureCall(x) {
					break // a call that only computes a value: needed only when the value is
				}
				var ops []*ssa.Value
				for _, op := range ins.Operands(ops) {
					if op != nil {
						need(*op)
					}
				}
				need(x)
			default:
				var ops []*ssa.Value
				for _, op := range ins.Operands(ops) {
					if op != nil {
						need(*op)
					}
				}
				if v, ok := ins.(ssa.Value); ok {
					need(v)
				}
			}
		}
	}
	wantElem := func(al *ssa.Alloc, k int64, all bool) {
		info := tables[al]
		if all {
			if !info.all {
				info.all = true
				for _, sts := range info.fills {
					for _, st := range sts {
						need(st.Val)
					}
				}
			}
			return
		}
		if !info.wanted[k] {
			info.wanted[k] = true
			for _, st := range info.fills[k] {
				need(st.Val)
			}
		}
	}
	for len(work) > 0 {
		v := work[len(work)-1]
		work = work[:len(work)-1]
		ins, ok := v.(ssa.Instruction)
		if !ok {
			continue
		}
		if phi, isPhi := v.(*ssa.Phi); isPhi {
			for i, e := range phi.Edges {
				if i < len(phi.Block().Preds) && feasible(phi.Block().Preds[i], phi.Block()) {
					need(e)
				}
			}
			continue
		}
		// a lookup in a local map: the entries it can yield
		if lk, isLk := v.(*ssa.Lookup); isLk {
			if mm, isLocal := lk.X.(*ssa.MakeMap); isLocal && localMaps[mm] != nil {
				need(lk.Index)
				cv := evalConstWith(lk.Index, a.fn, a.bind, 0)
				if wantedKeys[mm] == nil {
					wantedKeys[mm] = map[string]bool{}
				}
				for _, up := range localMaps[mm] {
					kc := up.Key.(*ssa.Const).Value
					if cv != nil && !constant.Compare(cv, token.EQL, kc) {
						continue
					}
					if !wantedKeys[mm][kc.ExactString()] {
						wantedKeys[mm][kc.ExactString()] = true
						need(up.Value)
					}
				}
				continue
			}
		}
		// a whole local table read as a value
		if ld, isLd := v.(*ssa.UnOp); isLd && ld.Op == token.MUL {
			if al, isAl := ld.X.(*ssa.Alloc); isAl && tables[al] != nil {
				wantElem(al, 0, true)
				continue
			}
		}
		// a read of an element of a local table
		if ld, isLd := v.(*ssa.UnOp); isLd && ld.Op == token.MUL {
			if ia, isIA := ld.X.(*ssa.IndexAddr); isIA {
				if al := tableOf(ia.X); al != nil {
					need(ia.Index)
					if cv := evalConstWith(ia.Index, a.fn, a.bind, 0); cv != nil && cv.Kind() == constant.Int {
						k, _ := constant.Int64Val(cv)
						wantElem(al, k, false)
					} else {
						wantElem(al, 0, true)
					}
					continue
				}
			}
		}
		var ops []*ssa.Value
		for _, op := range ins.Operands(ops) {
			if op != nil {
				need(*op)
			}
		}
	}
	a.deadLoad = map[*ssa.UnOp]bool{}
	a.deadCall = map[*ssa.Call]bool{}
	for _, b := range a.fn.Blocks {
		for _, ins := range b.Instrs {
			if ld, ok := ins.(*ssa.UnOp); ok && ld.Op == token.MUL && !needed[ld] {
				a.deadLoad[ld] = true
			}
			if call, ok := ins.(*ssa.Call); ok && !needed[call] && a.pureCall(call) {
				a.deadCall[call] = true
			}
		}
	}
}

// pureCall: a static call of a library function that writes nothing, cannot panic and calls nothing unknown.
func (a *effAnalysis) pureCall(call *ssa.Call) bool {
	callee := call.Common().StaticCallee()
	if callee == nil || !a.isLib(callee) || callee == a.fn {
		return false
	}
	ce := a.e.With(callee, nil)
	return len(ce.Writes) == 0 && len(ce.Panics) == 0 && len(ce.Ext) == 0 && len(ce.Dyn) == 0 && len(ce.Unknown) == 0 && !ce.Recursion
}

func (a *effAnalysis) run() {
	fn := a.fn
	a.reach = reachableBlocks(fn, a.bind)
	if a.liveRes != nil || len(a.bind) > 0 {
		a.findDeadLoads()
	}
	for _, b := range fn.Blocks {
		if !a.reach[b] {
			continue
		}
		for _, ins := range b.Instrs {
			a.instr(ins)
		}
	}
	if len(a.rets) > 0 && !a.retMixed {
		first := a.rets[0]
		same := true
		for _, o := range a.rets[1:] {
			if o != first {
				same = false
			}
		}
		if same {
			a.res.Ret = &first
		}
	}
}

func (a *effAnalysis) read(l Loc, pos token.Pos) {
	if l.Root == "" || (l.Root == "a" && l.Flat == "") {
		return
	}
	if l.Via == "" {
		l.Pos = pos
		l.Via = fname(a.fn)
	}
	k := l.Key()
	if _, ok := a.res.Reads[k]; !ok {
		a.res.Reads[k] = l
	}
}

func (a *effAnalysis) write(l Loc, pos token.Pos) {
	if l.Root == "" || (l.Root == "a" && l.Flat == "") {
		return
	}
	if l.Via == "" {
		l.Pos = pos
		l.Via = fname(a.fn)
	}
	k := l.Key()
	if _, ok := a.res.Writes[k]; !ok {
		a.res.Writes[k] = l
	}
}

func (a *effAnalysis) instr(ins ssa.Instruction) {
	switch x := ins.(type) {
	case *ssa.Alloc:
		if n := qualStruct(x.Type()); n != "" {
			if _, ok := a.res.Allocs[n]; !ok {
				a.res.Allocs[n] = x.Pos()
			}
		}
	case *ssa.UnOp:
		if x.Op == token.MUL {
			if a.deadLoad[x] {
				break // feeds only results this call site discards
			}
			if a.structCopyReads(x) {
				break
			}
			if a.onlyUnreadMapEntry(x) {
				break // the value only fills an entry of a local map that no lookup of this specialisation can reach
			}
			a.read(a.addrLoc(x.X), x.Pos())
		}
	case *ssa.Store:
		a.write(a.addrLoc(x.Addr), x.Pos())
	case *ssa.MapUpdate:
		o := a.origin(x.Map)
		a.write(Loc{Root: o.Root, Path: o.Path + "[" + a.keyStr(x.Key) + "]", Flat: "elem:" + x.Map.Type().String()}, x.Pos())
	case *ssa.Lookup:
		if _, ok := x.X.Type().Underlying().(*types.Map); ok {
			o := a.origin(x.X)
			a.read(Loc{Root: o.Root, Path: o.Path + "[" + a.keyStr(x.Index) + "]", Flat: "elem:" + x.X.Type().String()}, x.Pos())
		}
	case *ssa.Range:
		if _, ok := x.X.Type().Underlying().(*types.Map); ok {
			a.res.RangeMap[fname(a.fn)] = x.Pos()
			o := a.origin(x.X)
			a.read(Loc{Root: o.Root, Path: o.Path + "[*]", Flat: "elem:" + x.X.Type().String()}, x.Pos())
		}
	case *ssa.Panic:
		if _, ok := a.res.Panics[fname(a.fn)]; !ok {
			a.res.Panics[fname(a.fn)] = x.Pos()
		}
	case *ssa.Return:
		if len(x.Results) == 1 {
			if isRefLike(x.Results[0].Type()) {
				if c, ok := x.Results[0].(*ssa.Const); ok && c.Value == nil {
					// returning nil does not change the origin summary
					break
				}
				a.rets = append(a.rets, a.origin(x.Results[0]))
			}
		} else if len(x.Results) > 1 {
			a.retMixed = true
		}
	case *ssa.Call:
		if a.deadCall[x] {
			break // computes only what this call site discards
		}
		if a.onlyUnreadMapEntryVal(x) && a.pureCall(x) {
			break // only fills an entry of a local map that no lookup of this specialisation can reach
		}
		a.call(x.Common(), x.Pos(), x)
	case *ssa.Defer:
		a.call(x.Common(), x.Pos(), nil)
	case *ssa.Go:
		a.call(x.Common(), x.Pos(), nil)
	}
}

func isRefLike(t types.Type) bool {
	switch t.Underlying().(type) {
	case *types.Pointer, *types.Map, *types.Slice, *types.Interface, *types.Chan, *types.Signature:
		return true
	}
	return false
}

func qualStruct(t types.Type) string {
	if p, ok := t.Underlying().(*types.Pointer); ok {
		t = p.Elem()
	}
	if nt, ok := t.(*types.Named); ok {
		if _, ok := nt.Underlying().(*types.Struct); ok && nt.Obj().Pkg() != nil {
			return nt.Obj().Pkg().Name() + "." + nt.Obj().Name()
		}
	}
	return ""
}

func (a *effAnalysis) keyStr(v ssa.Value) string {
	if c := a.evalConst(v); c != nil {
		if c.Kind() == constant.String {
			return constant.StringVal(c)
		}
		return c.ExactString()
	}
	if alts := localColumnConsts(v); len(alts) > 0 {
		return strings.Join(alts, "|") // one of the entries of a local literal table (walked by a loop)
	}
	return "*"
}

// localColumnConsts: the string constants v can be when it is read out of local literal tables (arrays, slices
// and structs written as literals, possibly nested, possibly copied into a loop variable) at positions picked
// by non-constant indices; nil when v is anything else.
func localColumnConsts(v ssa.Value) []string {
	vals, ok := possibleConsts(v, 0)
	if !ok || len(vals) == 0 {
		return nil
	}
	set := map[string]bool{}
	for _, x := range vals {
		str, isS := x.(string)
		if !isS {
			return nil
		}
		set[str] = true
	}
	var out []string
	for k := range set {
		out = append(out, k)
	}
	sort.Strings(out)
	return out
}

// constAggregate: the content of a local array or struct written as a literal (every store to it has constant
// indices and stores a constant or another such literal).
func constAggregate(al *ssa.Alloc, depth int) (interface{}, bool) {
	if depth > 4 || al.Parent() == nil {
		return nil, false
	}
	t := al.Type().Underlying().(*types.Pointer).Elem()
	var cur interface{}
	switch t.Underlying().(type) {
	case *types.Struct:
		cur = absStruct{t, map[int]interface{}{}}
	case *types.Array:
		cur = absArray{t, map[int64]interface{}{}}
	default:
		return nil, false
	}
	n := 0
	for _, b := range al.Parent().Blocks {
		for _, ins := range b.Instrs {
			st, ok := ins.(*ssa.Store)
			if !ok {
				continue
			}
			a2, steps := localPath(st.Addr)
			if a2 != al {
				continue
			}
			vals, ok := possibleConsts(st.Val, depth+1)
			if !ok || len(vals) != 1 {
				return nil, false
			}
			if len(steps) == 0 {
				cur = vals[0]
				n++
				continue
			}
			// set along constant steps
			var set func(c interface{}, t types.Type, steps []pathStep, v interface{}) (interface{}, bool)
			set = func(c interface{}, t types.Type, steps []pathStep, v interface{}) (interface{}, bool) {
				if len(steps) == 0 {
					return v, true
				}
				et := elemType(t, steps[0])
				if et == nil {
					return nil, false
				}
				switch cc := c.(type) {
				case absStruct:
					if cc.f == nil {
						cc.f = map[int]interface{}{}
					}
					sub := cc.f[steps[0].field]
					if sub == nil {
						sub, _ = zeroValue(et)
					}
					nv, ok := set(sub, et, steps[1:], v)
					if !ok {
						return nil, false
					}
					cc.f[steps[0].field] = nv
					return cc, true
				case absArray:
					k, isK := constInt(steps[0].index)
					if !isK {
						return nil, false
					}
					if cc.e == nil {
						cc.e = map[int64]interface{}{}
					}
					sub := cc.e[k]
					if sub == nil {
						sub, _ = zeroValue(et)
					}
					nv, ok := set(sub, et, steps[1:], v)
					if !ok {
						return nil, false
					}
					cc.e[k] = nv
					return cc, true
				}
				return nil, false
			}
			nv, ok := set(cur, t, steps, vals[0])
			if !ok {
				return nil, false
			}
			cur = nv
			n++
		}
	}
	return cur, n > 0
}

// possibleConsts: the constant values v can take when it is a constant, or read out of local literals.
func possibleConsts(v ssa.Value, depth int) ([]interface{}, bool) {
	if depth > 8 {
		return nil, false
	}
	all := func(c interface{}) []interface{} {
		switch cc := c.(type) {
		case absArray:
			n := cc.t.Underlying().(*types.Array).Len()
			var out []interface{}
			for i := int64(0); i < n; i++ {
				if e, ok := cc.e[i]; ok {
					out = append(out, e)
				} else if z, ok := zeroValue(cc.t.Underlying().(*types.Array).Elem()); ok {
					out = append(out, z)
				}
			}
			return out
		}
		return nil
	}
	step := func(in []interface{}, st pathStep) ([]interface{}, bool) {
		var out []interface{}
		for _, c := range in {
			switch cc := c.(type) {
			case absStruct:
				if st.field < 0 {
					return nil, false
				}
				if e, ok := cc.f[st.field]; ok {
					out = append(out, e)
				} else if z, ok := zeroValue(elemType(cc.t, st)); ok {
					out = append(out, z)
				} else {
					return nil, false
				}
			case absArray:
				if st.index == nil {
					return nil, false
				}
				if k, isK := constInt(st.index); isK {
					if e, ok := cc.e[k]; ok {
						out = append(out, e)
					} else if z, ok := zeroValue(cc.t.Underlying().(*types.Array).Elem()); ok {
						out = append(out, z)
					}
				} else {
					out = append(out, all(cc)...)
				}
			default:
				return nil, false
			}
		}
		return out, true
	}
	switch x := v.(type) {
	case *ssa.Const:
		if x.Value == nil {
			return nil, false
		}
		switch x.Value.Kind() {
		case constant.String:
			return []interface{}{constant.StringVal(x.Value)}, true
		case constant.Int:
			k, _ := constant.Int64Val(x.Value)
			return []interface{}{k}, true
		case constant.Bool:
			return []interface{}{constant.BoolVal(x.Value)}, true
		}
		return nil, false
	case *ssa.UnOp:
		if x.Op != token.MUL {
			return nil, false
		}
		al, steps := localPath(x.X)
		if al == nil {
			return nil, false
		}
		var base []interface{}
		if agg, ok := constAggregate(al, depth+1); ok {
			base = []interface{}{agg}
		} else {
			// a local variable holding copies of such values (the loop variable of a range)
			if al.Referrers() == nil {
				return nil, false
			}
			for _, ref := range *al.Referrers() {
				if st, ok := ref.(*ssa.Store); ok && st.Addr == ssa.Value(al) {
					vals, ok := possibleConsts(st.Val, depth+1)
					if !ok {
						return nil, false
					}
					base = append(base, vals...)
				}
			}
			if len(base) == 0 {
				return nil, false
			}
		}
		for _, st := range steps {
			var ok bool
			base, ok = step(base, st)
			if !ok {
				return nil, false
			}
		}
		return base, true
	case *ssa.Index:
		base, ok := possibleConsts(x.X, depth+1)
		if !ok {
			return nil, false
		}
		return step(base, pathStep{field: -1, index: x.Index})
	case *ssa.Field:
		base, ok := possibleConsts(x.X, depth+1)
		if !ok {
			return nil, false
		}
		return step(base, pathStep{field: x.Field})
	}
	return nil, false
}

func soleStoredValue(cell *ssa.Alloc) ssa.Value {
	if cell.Referrers() == nil {
		return nil
	}
	var v ssa.Value
	n := 0
	for _, ref := range *cell.Referrers() {
		if st, ok := ref.(*ssa.Store); ok && st.Addr == ssa.Value(cell) {
			v = st.Val
			n++
		}
	}
	if n == 1 {
		return v
	}
	return nil
}

func (a *effAnalysis) origin(v ssa.Value) Origin {
	if o, ok := a.orig[v]; ok {
		return o
	}
	a.orig[v] = Origin{Root: "o"} // cycle guard (phis)
	o := a.origin1(v)
	a.orig[v] = o
	return o
}

func (a *effAnalysis) origin1(v ssa.Value) Origin {
	switch x := v.(type) {
	case *ssa.Parameter:
		for i, p := range a.fn.Params {
			if p == x {
				return Origin{Root: fmt.Sprintf("p%d", i)}
			}
		}
	case *ssa.FreeVar:
		// the receiver a bound method value x.M carries (in ordinary closures free variables are cells)
		if strings.HasSuffix(a.fn.Name(), "$bound") && a.fn.Synthetic != "" {
			for i, fv := range a.fn.FreeVars {
				if fv == x {
					return Origin{Root: fmt.Sprintf("fv%d", i)}
				}
			}
		}
	case *ssa.Alloc, *ssa.MakeMap, *ssa.MakeSlice, *ssa.MakeClosure, *ssa.MakeChan:
		return Origin{Root: "a"}
	case *ssa.Global:
		return Origin{Root: "g:" + gname(x)}
	case *ssa.UnOp:
		if x.Op == token.MUL {
			// the content of a variable a function literal captured: known to the function that made the literal
			if fv, ok := x.X.(*ssa.FreeVar); ok && !strings.HasSuffix(a.fn.Name(), "$bound") {
				for i, f := range a.fn.FreeVars {
					if f == fv {
						return Origin{Root: fmt.Sprintf("fvc%d", i)}
					}
				}
			}
			// store forwarding: a field of an object this activation allocated holds what was stored into it
			if fa, ok := x.X.(*ssa.FieldAddr); ok {
				if al, ok := fa.X.(*ssa.Alloc); ok {
					if o, ok := a.fieldForward(al, fa.Field); ok {
						return o
					}
				}
			}
			l := a.addrLoc(x.X)
			if l.Root == "a" || l.Root == "o" {
				// a value loaded from a local cell or an unknown object
				if al, ok := x.X.(*ssa.Alloc); ok {
					// what the cell certainly holds where it is read (a named result reassigned on the way), else the
					// common origin of everything stored into it
					if !isAggregate(al) {
						if st := cellStoreBefore(al, x); st != nil {
							return a.origin(st.Val)
						}
					}
					return a.cellOrigin(al)
				}
				return Origin{Root: l.Root}
			}
			return Origin{Root: l.Root, Path: l.Path}
		}
	case *ssa.FieldAddr, *ssa.IndexAddr:
		l := a.addrLoc(v)
		if l.Root == "a" || l.Root == "o" {
			return Origin{Root: l.Root}
		}
		return Origin{Root: l.Root, Path: l.Path}
	case *ssa.Phi:
		var first *Origin
		// the web of merges and of `l = append(l, ...)`: its origin is the common origin of what enters it
		web := map[ssa.Value]bool{}
		var leaves []ssa.Value
		var walk func(v ssa.Value)
		walk = func(v ssa.Value) {
			if web[v] {
				return
			}
			web[v] = true
			switch y := v.(type) {
			case *ssa.Phi:
				for _, e := range y.Edges {
					walk(e)
				}
				return
			case *ssa.Call:
				if b, ok := y.Common().Value.(*ssa.Builtin); ok && b.Name() == "append" && len(y.Common().Args) > 0 {
					walk(y.Common().Args[0])
					return
				}
			}
			leaves = append(leaves, v)
		}
		walk(x)
		for _, e := range leaves {
			if c, ok := e.(*ssa.Const); ok && c.Value == nil {
				continue
			}
			o := a.origin(e)
			if first == nil {
				first = &o
			} else if *first != o {
				return Origin{Root: "o"}
			}
		}
		if first != nil {
			return *first
		}
	case *ssa.MakeInterface:
		return a.origin(x.X)
	case *ssa.ChangeType:
		return a.origin(x.X)
	case *ssa.ChangeInterface:
		return a.origin(x.X)
	case *ssa.Convert:
		return a.origin(x.X)
	case *ssa.Slice:
		return a.origin(x.X)
	case *ssa.Lookup:
		if _, ok := x.X.Type().Underlying().(*types.Map); ok && !x.CommaOk {
			o := a.origin(x.X)
			if o.Root == "a" || o.Root == "o" {
				return Origin{Root: o.Root}
			}
			return Origin{Root: o.Root, Path: o.Path + "[" + a.keyStr(x.Index) + "]"}
		}
	case *ssa.Call:
		return a.callOrigin(x)
	}
	return Origin{Root: "o"}
}

var firstField = regexp.MustCompile(`^\.([A-Za-z_][A-Za-z0-9_]*)(.*)$`)

// fieldForward: the common origin of everything this function stores into field idx of its own
// allocation al (ok=false when nothing is stored or the stored values have different origins).
func (a *effAnalysis) fieldForward(al *ssa.Alloc, idx int) (Origin, bool) {
	var first *Origin
	for _, b := range a.fn.Blocks {
		for _, ins := range b.Instrs {
			st, ok := ins.(*ssa.Store)
			if !ok {
				continue
			}
			fa, ok := st.Addr.(*ssa.FieldAddr)
			if !ok || fa.X != ssa.Value(al) || fa.Field != idx {
				continue
			}
			o := a.origin(st.Val)
			if first == nil {
				first = &o
			} else if *first != o {
				return Origin{}, false
			}
		}
	}
	if first == nil || first.Root == "a" || first.Root == "o" {
		return Origin{}, false
	}
	return *first, true
}

// cellOrigin: origin of the value held in an address-taken local: the common
// origin of everything stored into it.
func (a *effAnalysis) cellOrigin(al *ssa.Alloc) Origin {
	var first *Origin
	for _, ref := range *al.Referrers() {
		if st, ok := ref.(*ssa.Store); ok && st.Addr == al {
			o := a.origin(st.Val)
			if first == nil {
				first = &o
			} else if *first != o {
				return Origin{Root: "o"}
			}
		}
	}
	if first != nil {
		return *first
	}
	return Origin{Root: "a"}
}

func (a *effAnalysis) addrLoc(addr ssa.Value) Loc {
	switch x := addr.(type) {
	case *ssa.Global:
		return Loc{Root: "g:" + gname(x), Flat: gname(x)}
	case *ssa.FieldAddr:
		base := a.origin(x.X)
		st := x.X.Type().Underlying().(*types.Pointer).Elem()
		sname := "?"
		if nt, ok := st.(*types.Named); ok {
			sname = nt.Obj().Name()
		}
		fld := fieldName(st, x.Field)
		l := Loc{Root: base.Root, Flat: sname + "." + fld}
		if base.Root != "a" && base.Root != "o" {
			l.Path = base.Path + "." + fld
		}
		return l
	case *ssa.IndexAddr:
		base := a.origin(x.X)
		l := Loc{Root: base.Root, Flat: "elem:" + x.X.Type().String()}
		if base.Root != "a" && base.Root != "o" {
			l.Path = base.Path + "[]"
		}
		return l
	case *ssa.Alloc:
		return Loc{Root: "a"}
	case *ssa.FreeVar:
		// the captured variable itself: a local of the function that made the literal
		if !strings.HasSuffix(a.fn.Name(), "$bound") {
			for i, f := range a.fn.FreeVars {
				if f == x {
					return Loc{Root: fmt.Sprintf("fva%d", i), Flat: "deref:" + addr.Type().String()}
				}
			}
		}
	}
	o := a.origin(addr)
	l := Loc{Root: o.Root, Flat: "deref:" + addr.Type().String()}
	if o.Root != "a" && o.Root != "o" {
		l.Path = o.Path + "(*)"
	}
	return l
}

// ---- calls ----

// external functions the engine models. Everything else that receives a
// reference argument is reported as Unknown.
var pureExtPrefixes = []string{"fmt.", "strings.", "math.", "strconv.", "unicode/utf8.", "unicode.", "(time.Time).", "(time.Month).", "time.Now", "time.Date",
	"(*container/list.List).Front", "(*container/list.List).Back", "(*container/list.List).Len", "(*container/list.Element).Next", "(*container/list.Element).Prev",
	"(*sync.Mutex).Lock", "(*sync.Mutex).Unlock", "(*sync.RWMutex).", "errors.", "sort.SearchInts", "(*time.Location).", "time.", "(time.Duration).", "math/bits.", "(*strings.Replacer).", "(*strings.Reader)."}

var listMutators = map[string]bool{"PushBack": true, "PushFront": true, "Remove": true, "Init": true, "InsertBefore": true, "InsertAfter": true,
	"MoveToFront": true, "MoveToBack": true, "MoveBefore": true, "MoveAfter": true, "PushBackList": true, "PushFrontList": true}

func extName(fn *ssa.Function) string { return fn.String() }

func (a *effAnalysis) calleeOf(common *ssa.CallCommon) *ssa.Function {
	if common.IsInvoke() {
		return nil
	}
	if fn := common.StaticCallee(); fn != nil {
		return fn
	}
	if mc, ok := common.Value.(*ssa.MakeClosure); ok {
		if fn, ok := mc.Fn.(*ssa.Function); ok {
			return fn
		}
	}
	return nil
}

func (a *effAnalysis) isLib(fn *ssa.Function) bool {
	if fn == nil || fn.Blocks == nil {
		return false
	}
	p := fn.Pkg
	if p == nil && fn.Parent() != nil {
		p = fn.Parent().Pkg
	}
	if p == nil && fn.Synthetic != "" && fn.Object() != nil && fn.Object().Pkg() != nil {
		// a bound-method or thunk wrapper of a library method is library code
		return strings.HasPrefix(fn.Object().Pkg().Path(), a.e.c.ModPath)
	}
	return p != nil && strings.HasPrefix(p.Pkg.Path(), a.e.c.ModPath)
}

func (a *effAnalysis) call(common *ssa.CallCommon, pos token.Pos, callInstr *ssa.Call) {
	if b, ok := common.Value.(*ssa.Builtin); ok {
		switch b.Name() {
		case "copy":
			if len(common.Args) > 0 {
				o := a.origin(common.Args[0])
				a.write(Loc{Root: o.Root, Path: pathIf(o, "[]"), Flat: "elem:" + common.Args[0].Type().String()}, pos)
			}
		case "delete":
			if len(common.Args) > 0 {
				o := a.origin(common.Args[0])
				a.write(Loc{Root: o.Root, Path: pathIf(o, "[*]"), Flat: "elem:" + common.Args[0].Type().String()}, pos)
			}
		case "append":
			// append may write into the backing array of its first argument
			if len(common.Args) > 0 {
				o := a.origin(common.Args[0])
				if o.Root != "a" {
					a.write(Loc{Root: o.Root, Path: pathIf(o, "[append]"), Flat: "elem:" + common.Args[0].Type().String()}, pos)
				}
			}
		}
		return
	}
	callee := a.calleeOf(common)
	if callee == nil && !common.IsInvoke() {
		// a call through a variable whose possible targets are a finite set of known functions
		live := func(phi *ssa.Phi, i int) bool {
			pred := phi.Block().Preds[i]
			if a.reach != nil && !a.reach[pred] {
				return false
			}
			if iff, ok := pred.Instrs[len(pred.Instrs)-1].(*ssa.If); ok && pred.Succs[0] != pred.Succs[1] {
				if cv := a.evalConst(iff.Cond); cv != nil && cv.Kind() == constant.Bool {
					want := pred.Succs[1]
					if constant.BoolVal(cv) {
						want = pred.Succs[0]
					}
					return want == phi.Block()
				}
			}
			return true
		}
		if targets := a.targetsOf(common.Value, live); len(targets) > 0 {
			all := true
			for _, t := range targets {
				if !a.isLib(t.fn) {
					all = false
				}
			}
			if all {
				for _, t := range targets {
					if _, ok := a.res.Calls[fname(t.fn)]; !ok {
						a.res.Calls[fname(t.fn)] = pos
					}
					a.curMC = t.mc
					a.merge(a.e.With(t.fn, nil), common.Args)
					a.curMC = nil
				}
				return
			}
		}
	}
	if callee == nil {
		desc := "dynamic call"
		if common.IsInvoke() {
			desc = "invoke " + common.Method.FullName()
		} else {
			desc = "call through " + common.Value.Name() + " of type " + common.Value.Type().String()
		}
		k := fname(a.fn) + ": " + desc
		if _, ok := a.res.Dyn[k]; !ok {
			a.res.Dyn[k] = pos
		}
		return
	}
	if a.isLib(callee) {
		if _, ok := a.res.Calls[fname(callee)]; !ok {
			a.res.Calls[fname(callee)] = pos
		}
		bind := map[int]constant.Value{}
		for i, arg := range common.Args {
			if i >= len(callee.Params) {
				break
			}
			if cv := a.evalConst(arg); cv != nil {
				bind[i] = cv
			}
		}
		a.closureBind(common, bind)
		ce := a.e.WithFL(callee, bind, a.funcArgs(callee, common.Args), usedResults(callInstr, callee))
		a.curMC, _ = common.Value.(*ssa.MakeClosure)
		a.merge(ce, common.Args)
		a.curMC = nil
		return
	}
	// external
	name := extName(callee)
	if _, ok := a.res.Ext[name]; !ok {
		a.res.Ext[name] = pos
	}
	if name == "(*sync.Once).Do" && len(common.Args) == 2 {
		// once.Do(f) runs f (at most once): its effects are f's
		var f *ssa.Function
		switch v := common.Args[1].(type) {
		case *ssa.MakeClosure:
			f, _ = v.Fn.(*ssa.Function)
		case *ssa.Function:
			f = v
		}
		if f != nil && a.isLib(f) {
			a.merge(a.e.With(f, nil), nil)
			return
		}
	}
	if (strings.HasPrefix(name, "(*strings.Builder).") || strings.HasPrefix(name, "(*bytes.Buffer).")) && len(common.Args) > 0 {
		switch callee.Name() {
		case "String", "Len", "Cap", "Bytes":
		default:
			if o := a.origin(common.Args[0]); o.Root != "a" {
				a.write(Loc{Root: o.Root, Path: pathIf(o, "(buffer)"), Flat: "buffer"}, pos)
			}
		}
		return
	}
	if strings.HasPrefix(name, "(*container/list.List).") && listMutators[callee.Name()] {
		if len(common.Args) > 0 {
			o := a.origin(common.Args[0])
			a.write(Loc{Root: o.Root, Path: pathIf(o, "(list)"), Flat: "list"}, pos)
		}
		return
	}
	if name == "container/list.New" {
		return
	}
	for _, p := range pureExtPrefixes {
		if strings.HasPrefix(name, p) {
			return
		}
	}
	if _, ok := a.res.Unknown[name]; !ok {
		a.res.Unknown[name] = pos
	}
}

// usedResults: which results of a call that returns several the caller takes out of the tuple and uses
// (nil when all are, or when that cannot be told).
func usedResults(call *ssa.Call, callee *ssa.Function) []bool {
	n := callee.Signature.Results().Len()
	if call == nil || n < 2 || call.Referrers() == nil {
		return nil
	}
	used := make([]bool, n)
	for _, ref := range *call.Referrers() {
		switch x := ref.(type) {
		case *ssa.Extract:
			if x.Referrers() != nil {
				for _, r := range *x.Referrers() {
					if _, dbg := r.(*ssa.DebugRef); !dbg {
						used[x.Index] = true
					}
				}
			}
		case *ssa.DebugRef:
		default:
			return nil
		}
	}
	all := true
	for _, u := range used {
		all = all && u
	}
	if all {
		return nil
	}
	return used
}

// isFuncish: a function type, or an array or slice of functions.
func isFuncish(t types.Type) (fn, elems bool) {
	switch u := t.Underlying().(type) {
	case *types.Signature:
		return true, false
	case *types.Array:
		_, ok := u.Elem().Underlying().(*types.Signature)
		return false, ok
	case *types.Slice:
		_, ok := u.Elem().Underlying().(*types.Signature)
		return false, ok
	}
	return false, false
}

// funcArgs: for the function-valued arguments of a call, what they can denote here.
func (a *effAnalysis) funcArgs(callee *ssa.Function, args []ssa.Value) map[int][]funcVal_ {
	var out map[int][]funcVal_
	for i, arg := range args {
		if i >= len(callee.Params) {
			break
		}
		isF, isE := isFuncish(arg.Type())
		var t []funcVal_
		switch {
		case isF:
			t = a.targetsOf(arg, nil)
		case isE:
			t = a.elemsOf(arg, nil)
		}
		if len(t) > 0 {
			if out == nil {
				out = map[int][]funcVal_{}
			}
			out[i] = t
		}
	}
	return out
}

// targetsOf: what a called value can denote, under this activation's own bindings first.
func (a *effAnalysis) targetsOf(v ssa.Value, live func(phi *ssa.Phi, i int) bool) []funcVal_ {
	switch x := v.(type) {
	case *ssa.Parameter:
		if t := a.fbind[paramIndex(a.fn, x)]; len(t) > 0 && x.Parent() == a.fn {
			return t
		}
	case *ssa.Index:
		if t := a.elemsOf(x.X, live); len(t) > 0 {
			return t
		}
	case *ssa.UnOp:
		if ia, ok := x.X.(*ssa.IndexAddr); ok && x.Op == token.MUL {
			if t := a.elemsOf(ia.X, live); len(t) > 0 {
				return t
			}
		}
	}
	prev := funcMapKeyConst
	funcMapKeyConst = a.evalConst
	defer func() { funcMapKeyConst = prev }()
	return funcValsLive(a.e.c, v, live, 0)
}

func (a *effAnalysis) elemsOf(v ssa.Value, live func(phi *ssa.Phi, i int) bool) []funcVal_ {
	switch x := v.(type) {
	case *ssa.Parameter:
		if t := a.fbind[paramIndex(a.fn, x)]; len(t) > 0 && x.Parent() == a.fn {
			return t
		}
	case *ssa.Slice:
		return a.elemsOf(x.X, live)
	case *ssa.UnOp:
		if al, ok := x.X.(*ssa.Alloc); ok && x.Op == token.MUL {
			// a local copy of a parameter (range over an array copies it)
			if sv := soleStoredValue(al); sv != nil {
				if p, ok := sv.(*ssa.Parameter); ok {
					return a.elemsOf(p, live)
				}
			}
		}
	case *ssa.Alloc:
		if sv := soleStoredValue(x); sv != nil {
			if p, ok := sv.(*ssa.Parameter); ok {
				return a.elemsOf(p, live)
			}
		}
	}
	return funcElemVals(a.e.c, v, live, 0)
}

func pathIf(o Origin, suffix string) string {
	if o.Root == "a" || o.Root == "o" {
		return ""
	}
	return o.Path + suffix
}

// bindingLoc: a location below the k-th binding of closure mc, as seen from this activation: through the
// binding's own origin when this function made the closure, else left for the maker to translate.
func (a *effAnalysis) bindingLoc(l Loc, mc *ssa.MakeClosure, k int) Loc {
	if mc == nil || k >= len(mc.Bindings) {
		return Loc{Root: "o", Flat: l.Flat, Pos: l.Pos, Via: l.Via}
	}
	if mc.Parent() == a.fn {
		o := a.origin(mc.Bindings[k])
		nl := Loc{Root: o.Root, Flat: l.Flat, Pos: l.Pos, Via: l.Via}
		if o.Root != "a" && o.Root != "o" {
			nl.Path = o.Path + l.Path
		}
		return nl
	}
	id := -1
	for i, m := range a.e.envs {
		if m == mc {
			id = i
		}
	}
	if id < 0 {
		id = len(a.e.envs)
		a.e.envs = append(a.e.envs, mc)
	}
	return Loc{Root: fmt.Sprintf("env:%d:%d", id, k), Path: l.Path, Flat: l.Flat, Pos: l.Pos, Via: l.Via}
}

func (a *effAnalysis) mapLoc(l Loc, args []ssa.Value) Loc {
	if strings.HasPrefix(l.Root, "fvc") || strings.HasPrefix(l.Root, "fva") {
		// a captured variable (fva) or what it holds (fvc), seen from the function that made the literal
		var k int
		fmt.Sscanf(l.Root[3:], "%d", &k)
		nl := Loc{Root: "o", Flat: l.Flat, Pos: l.Pos, Via: l.Via}
		if a.curMC != nil && a.curMC.Parent() == a.fn && k < len(a.curMC.Bindings) {
			switch cell := a.curMC.Bindings[k].(type) {
			case *ssa.Alloc:
				if strings.HasPrefix(l.Root, "fva") {
					nl.Root = "a"
				} else {
					o := a.cellOrigin(cell)
					nl.Root = o.Root
					if o.Root != "a" && o.Root != "o" {
						nl.Path = o.Path + l.Path
					}
				}
			case *ssa.FreeVar:
				// captured again by a literal inside a literal: one level further out
				for i, f := range a.fn.FreeVars {
					if f == cell {
						nl.Root = fmt.Sprintf("%s%d", l.Root[:3], i)
						nl.Path = l.Path
					}
				}
			}
		}
		return nl
	}
	if strings.HasPrefix(l.Root, "fv") {
		var k int
		fmt.Sscanf(l.Root, "fv%d", &k)
		return a.bindingLoc(l, a.curMC, k)
	}
	if strings.HasPrefix(l.Root, "env:") {
		var id, k int
		fmt.Sscanf(l.Root, "env:%d:%d", &id, &k)
		if id < len(a.e.envs) && a.e.envs[id].Parent() == a.fn {
			return a.bindingLoc(l, a.e.envs[id], k)
		}
		return l
	}
	if strings.HasPrefix(l.Root, "p") {
		var idx int
		fmt.Sscanf(l.Root, "p%d", &idx)
		if idx < len(args) {
			o := a.origin(args[idx])
			nl := Loc{Root: o.Root, Flat: l.Flat, Pos: l.Pos, Via: l.Via}
			if o.Root != "a" && o.Root != "o" {
				nl.Path = o.Path + l.Path
			} else if al, ok := args[idx].(*ssa.Alloc); ok {
				// the callee goes through a field of an object under construction: forward to what was stored there
				if m := firstField.FindStringSubmatch(l.Path); m != nil && m[2] != "" {
					if st, ok := al.Type().Underlying().(*types.Pointer).Elem().Underlying().(*types.Struct); ok {
						for i := 0; i < st.NumFields(); i++ {
							if fieldName(al.Type().Underlying().(*types.Pointer).Elem(), i) == m[1] {
								if fo, ok := a.fieldForward(al, i); ok && fo.Root != "a" && fo.Root != "o" {
									nl.Root = fo.Root
									nl.Path = fo.Path + m[2]
								}
							}
						}
					}
				}
			}
			return nl
		}
		return Loc{Root: "o", Flat: l.Flat, Pos: l.Pos, Via: l.Via}
	}
	return l
}

func (a *effAnalysis) merge(ce *Effects, args []ssa.Value) {
	for _, l := range ce.Reads {
		a.read(a.mapLoc(l, args), l.Pos)
	}
	for _, l := range ce.Writes {
		a.write(a.mapLoc(l, args), l.Pos)
	}
	for k, p := range ce.Calls {
		if _, ok := a.res.Calls[k]; !ok {
			a.res.Calls[k] = p
		}
	}
	for k, p := range ce.Ext {
		if _, ok := a.res.Ext[k]; !ok {
			a.res.Ext[k] = p
		}
	}
	for k, p := range ce.Allocs {
		if _, ok := a.res.Allocs[k]; !ok {
			a.res.Allocs[k] = p
		}
	}
	for k, p := range ce.Panics {
		if _, ok := a.res.Panics[k]; !ok {
			a.res.Panics[k] = p
		}
	}
	for k, p := range ce.Dyn {
		if _, ok := a.res.Dyn[k]; !ok {
			a.res.Dyn[k] = p
		}
	}
	for k, p := range ce.Unknown {
		if _, ok := a.res.Unknown[k]; !ok {
			a.res.Unknown[k] = p
		}
	}
	for k, p := range ce.RangeMap {
		if _, ok := a.res.RangeMap[k]; !ok {
			a.res.RangeMap[k] = p
		}
	}
	if ce.Recursion {
		a.res.Recursion = true
	}
}

func (a *effAnalysis) callOrigin(call *ssa.Call) Origin {
	common := call.Common()
	if b, ok := common.Value.(*ssa.Builtin); ok && b.Name() == "append" && len(common.Args) > 0 {
		// the result of append is its first argument's backing array or a fresh one
		return a.origin(common.Args[0])
	}
	callee := a.calleeOf(common)
	if callee == nil {
		return Origin{Root: "o"}
	}
	if !a.isLib(callee) {
		if extName(callee) == "container/list.New" {
			return Origin{Root: "a"}
		}
		return Origin{Root: "o"}
	}
	bind := map[int]constant.Value{}
	for i, arg := range common.Args {
		if i >= len(callee.Params) {
			break
		}
		if cv := a.evalConst(arg); cv != nil {
			bind[i] = cv
		}
	}
	a.closureBind(common, bind)
	ce := a.e.With(callee, bind)
	if ce.Ret == nil {
		return Origin{Root: "o"}
	}
	r := *ce.Ret
	if strings.HasPrefix(r.Root, "p") {
		var idx int
		fmt.Sscanf(r.Root, "p%d", &idx)
		if idx < len(common.Args) {
			o := a.origin(common.Args[idx])
			if o.Root == "a" || o.Root == "o" {
				return Origin{Root: o.Root}
			}
			return Origin{Root: o.Root, Path: o.Path + r.Path}
		}
		return Origin{Root: "o"}
	}
	return r
}

// ---- helpers for rules ----

// paramReads returns the access paths read below parameter idx (without the "p<idx>" prefix).
func (ef *Effects) paramReads(idx int) []string {
	pre := fmt.Sprintf("p%d", idx)
	var out []string
	for k, l := range ef.Reads {
		if l.Root == pre {
			out = append(out, strings.TrimPrefix(k, pre))
		}
	}
	sort.Strings(out)
	return out
}

// globalsRead returns the names of package variables read (directly or through elements).
func (ef *Effects) globalsRead() []string {
	m := map[string]bool{}
	for _, l := range ef.Reads {
		if strings.HasPrefix(l.Root, "g:") {
			m[strings.TrimPrefix(l.Root, "g:")] = true
		}
	}
	return sortedKeys(m)
}

// structCopyReads: x loads a whole library struct through a pointer (v := *p). The load is a read of every
// field of *p — except the fields that the copy overwrites at once: when the loaded value is only stored into
// a fresh local, fields of that local stored later in the same block never show what *p held. Returns false
// when x is not such a load.
func (a *effAnalysis) structCopyReads(x *ssa.UnOp) bool {
	nt, ok := x.Type().(*types.Named)
	if !ok {
		return false
	}
	st, ok := nt.Underlying().(*types.Struct)
	if !ok || nt.Obj().Pkg() == nil || !strings.HasPrefix(nt.Obj().Pkg().Path(), a.e.c.ModPath) {
		return false
	}
	switch x.X.(type) {
	case *ssa.Global, *ssa.FieldAddr, *ssa.IndexAddr, *ssa.Alloc:
		return false
	}
	killed := map[int]bool{}
	if refs := x.Referrers(); refs != nil && len(*refs) == 1 {
		if cp, ok := (*refs)[0].(*ssa.Store); ok && cp.Val == ssa.Value(x) {
			if al, ok := cp.Addr.(*ssa.Alloc); ok {
				after := false
				for _, ins := range cp.Block().Instrs {
					if ins == ssa.Instruction(cp) {
						after = true
						continue
					}
					if !after {
						continue
					}
					switch y := ins.(type) {
					case *ssa.Store:
						if fa, ok := y.Addr.(*ssa.FieldAddr); ok && fa.X == ssa.Value(al) {
							killed[fa.Field] = true
						}
					case *ssa.UnOp:
						if fa, ok := y.X.(*ssa.FieldAddr); ok && fa.X == ssa.Value(al) && !killed[fa.Field] {
							// read before being overwritten: stays a read
							_ = fa
						}
					}
				}
			}
		}
	}
	o := a.origin(x.X)
	for i := 0; i < st.NumFields(); i++ {
		if killed[i] {
			continue
		}
		fld := fieldName(nt, i)
		l := Loc{Root: o.Root, Flat: nt.Obj().Name() + "." + fld}
		if o.Root != "a" && o.Root != "o" {
			l.Path = o.Path + "." + fld
		}
		a.read(l, x.Pos())
	}
	return true
}

// onlyUnreadMapEntry: the loaded value is used for nothing but the value of one entry m[k] = v of a map the
// function builds itself (a literal), k a constant, and every lookup in that map has — under the constant
// bindings of this specialisation — a constant key different from k; the map does not escape. Such a load is
// made, but nothing the function computes can depend on it.
func (a *effAnalysis) onlyUnreadMapEntry(x *ssa.UnOp) bool { return a.onlyUnreadMapEntryVal(x) }

// onlyUnreadMapEntryVal: the value's only use is to fill an entry of a local map literal that no lookup of
// this specialisation can reach (a constant key other than every looked-up constant key).
func (a *effAnalysis) onlyUnreadMapEntryVal(x ssa.Value) bool {
	refs := x.Referrers()
	if refs == nil || len(*refs) != 1 {
		return false
	}
	up, ok := (*refs)[0].(*ssa.MapUpdate)
	if !ok || up.Value != x {
		return false
	}
	mm, ok := up.Map.(*ssa.MakeMap)
	if !ok || mm.Referrers() == nil {
		return false
	}
	kc := a.evalConst(up.Key)
	if kc == nil {
		return false
	}
	for _, ref := range *mm.Referrers() {
		switch y := ref.(type) {
		case *ssa.MapUpdate:
			if y.Map != ssa.Value(mm) {
				return false
			}
		case *ssa.Lookup:
			lk := a.evalConst(y.Index)
			if lk == nil || constant.Compare(lk, token.EQL, kc) {
				return false
			}
		case *ssa.DebugRef:
		default:
			return false // ranged over, passed on, returned: anything may read it
		}
	}
	return true
}
