package main

// C17 — Taoist/Buddhist dates are the lunar date with a fixed year offset.

import (
	"fmt"
	"go/token"
	"sort"
	"strings"

	"golang.org/x/tools/go/ssa"
)

func init() {
	register("C17",
		"the predicates' tables against their textual definitions; anything about the underlying lunar conversion (C01).",
		r17_1, r17_2, r17_3, r17_4, r17_5, r17_6, r17_7)
}

// affine form: sum of coef*symbol + constant. Symbols: "param:<name>", "lunar.year" (the
// lunar year reached through getters), "g:<Pkg.Var>" (never-written package integers).
type affineForm struct {
	coef map[string]int64
	k    int64
	ok   bool
}

func (a affineForm) String() string {
	if !a.ok {
		return "non-affine"
	}
	var ks []string
	for k := range a.coef {
		if a.coef[k] != 0 {
			ks = append(ks, k)
		}
	}
	sort.Strings(ks)
	var parts []string
	for _, k := range ks {
		parts = append(parts, fmt.Sprintf("%+d*%s", a.coef[k], k))
	}
	parts = append(parts, fmt.Sprintf("%+d", a.k))
	return strings.Join(parts, " ")
}

func affAdd(a, b affineForm, sign int64) affineForm {
	if !a.ok || !b.ok {
		return affineForm{}
	}
	out := affineForm{coef: map[string]int64{}, k: a.k + sign*b.k, ok: true}
	for k, v := range a.coef {
		out.coef[k] += v
	}
	for k, v := range b.coef {
		out.coef[k] += sign * v
	}
	return out
}

// affineOf computes the affine form of an int value in fn. Field reads reached through
// getter chains from parameter 0 are symbols named by their access path.
func affineOf(c *Ctx, fn *ssa.Function, v ssa.Value, depth int) affineForm {
	if depth > 12 {
		return affineForm{}
	}
	if k, ok := constInt(v); ok {
		return affineForm{coef: map[string]int64{}, k: k, ok: true}
	}
	sym := func(s string) affineForm { return affineForm{coef: map[string]int64{s: 1}, ok: true} }
	switch x := v.(type) {
	case *ssa.Parameter:
		return sym("param:" + x.Name())
	case *ssa.BinOp:
		switch x.Op {
		case token.ADD:
			return affAdd(affineOf(c, fn, x.X, depth+1), affineOf(c, fn, x.Y, depth+1), 1)
		case token.SUB:
			return affAdd(affineOf(c, fn, x.X, depth+1), affineOf(c, fn, x.Y, depth+1), -1)
		case token.MUL:
			l, r := affineOf(c, fn, x.X, depth+1), affineOf(c, fn, x.Y, depth+1)
			if l.ok && r.ok {
				scale := func(a affineForm, k int64) affineForm {
					out := affineForm{coef: map[string]int64{}, k: a.k * k, ok: true}
					for s, cv := range a.coef {
						out.coef[s] = cv * k
					}
					return out
				}
				if len(nonZero(l.coef)) == 0 {
					return scale(r, l.k)
				}
				if len(nonZero(r.coef)) == 0 {
					return scale(l, r.k)
				}
			}
			return affineForm{}
		}
	case *ssa.UnOp:
		if x.Op == token.MUL {
			if g, ok := x.X.(*ssa.Global); ok {
				return sym("g:" + gname(g))
			}
			if p := accessPathOf(c, fn, x); p != "" {
				return sym(p)
			}
			// a field of the object under construction: forward the value stored before
			if fa, ok := x.X.(*ssa.FieldAddr); ok {
				if _, isAlloc := fa.X.(*ssa.Alloc); isAlloc {
					for _, ref := range *fa.X.Referrers() {
						if fa2, ok := ref.(*ssa.FieldAddr); ok && fa2.Field == fa.Field {
							for _, r2 := range *fa2.Referrers() {
								if st, ok := r2.(*ssa.Store); ok && st.Block().Dominates(x.Block()) {
									return affineOf(c, fn, st.Val, depth+1)
								}
							}
						}
					}
				}
			}
		}
		if x.Op == token.SUB {
			return affAdd(affineForm{coef: map[string]int64{}, ok: true}, affineOf(c, fn, x.X, depth+1), -1)
		}
	case *ssa.Call:
		if p := accessPathOf(c, fn, x); p != "" {
			return sym(p)
		}
		// a library function with an affine body over its own receiver (e.g. Tao.GetYear) is inlined
		if callee := x.Common().StaticCallee(); callee != nil && callee.Blocks != nil && len(callee.Blocks) == 1 && len(x.Common().Args) == 1 {
			if ret, ok := callee.Blocks[0].Instrs[len(callee.Blocks[0].Instrs)-1].(*ssa.Return); ok && len(ret.Results) == 1 {
				inner := affineOf(c, callee, ret.Results[0], depth+1)
				if inner.ok {
					base := accessPathOf(c, fn, x.Common().Args[0])
					out := affineForm{coef: map[string]int64{}, k: inner.k, ok: true}
					for s, cv := range inner.coef {
						if strings.HasPrefix(s, "p0") && base != "" {
							out.coef[base+strings.TrimPrefix(s, "p0")] += cv
						} else if strings.HasPrefix(s, "p0") {
							return affineForm{}
						} else {
							out.coef[s] += cv
						}
					}
					return out
				}
			}
		}
	case *ssa.Convert:
		if isIntType(x.X.Type()) {
			return affineOf(c, fn, x.X, depth+1)
		}
	}
	return affineForm{}
}

func nonZero(m map[string]int64) []string {
	var out []string
	for k, v := range m {
		if v != 0 {
			out = append(out, k)
		}
	}
	return out
}

// accessPathOf: "p0.lunar.year"-style path of a value reached from a parameter through
// field loads and pure getters; "" when it is not such a path.
func accessPathOf(c *Ctx, fn *ssa.Function, v ssa.Value) string {
	switch x := v.(type) {
	case *ssa.Parameter:
		for i, p := range fn.Params {
			if p == x {
				return fmt.Sprintf("p%d", i)
			}
		}
	case *ssa.UnOp:
		if x.Op == token.MUL {
			if fa, ok := x.X.(*ssa.FieldAddr); ok {
				if base := accessPathOf(c, fn, fa.X); base != "" {
					return base + "." + strings.SplitN(fieldKeyOf(fa), ".", 2)[1]
				}
			}
		}
	case *ssa.Call:
		if recv, field, ok := getterField(c, x); ok {
			if base := accessPathOf(c, fn, recv); base != "" {
				return base + "." + strings.SplitN(field, ".", 2)[1]
			}
		}
	}
	return ""
}

func r17_1(c *Ctx, r *Report) {
	const rule = "R17.1"
	r.rule(rule, "The year is an affine function of the lunar year only, and the constructors invert it. Tao.GetYear is lunar.year - BIRTH_YEAR and NewTao builds lunar year = year + BIRTH_YEAR with BIRTH_YEAR = -2697; Foto.GetYear is lunar.year - DEAD_YEAR + 1 and NewFoto builds year + DEAD_YEAR - 1 with DEAD_YEAR = -543 (so +2697 and +544); computed as affine forms over (lunar year, parameters, never-written package constants).")
	e := c.ranges()
	for _, t := range []struct {
		typ, global, ctor string
		offset            int64
	}{{"Tao", "calendar.BIRTH_YEAR", "calendar.NewTao", 2697}, {"Foto", "calendar.DEAD_YEAR", "calendar.NewFoto", 544}} {
		get := c.Fn(r, rule, "calendar.(*"+t.typ+").GetYear")
		ctor := c.Fn(r, rule, t.ctor)
		if get == nil || ctor == nil {
			continue
		}
		gv, okG := e.tabHull[t.global]
		gk, isC := gv.isConst()
		if !okG || !isC || e.mutable[t.global] {
			r.bad(rule, t.global+" is a never-written constant", c.fnPos(get), "the epoch variable is not a never-written integer literal (undecided = fail)")
			continue
		}
		var ga affineForm
		for _, ins := range get.Blocks[len(get.Blocks)-1].Instrs {
			if ret, ok := ins.(*ssa.Return); ok && len(ret.Results) == 1 {
				ga = affineOf(c, get, ret.Results[0], 0)
			}
		}
		single := len(get.Blocks) == 1
		okGet := single && ga.ok && ga.coef["p0.lunar.year"] == 1 && len(nonZero(ga.coef)) <= 2
		total := ga.k - ga.coef["g:"+t.global]*0
		offs := ga.k + ga.coef["g:"+t.global]*gk
		okGet = okGet && offs == t.offset
		r.check(okGet, rule, fmt.Sprintf("calendar.(*%s).GetYear is the lunar year + %d", t.typ, t.offset), c.fnPos(get), fmt.Sprintf("affine form %s with %s = %d (single straight-line body: %v)", ga, t.global, gk, single))
		_ = total
		// constructor: first argument of NewLunar
		var ca affineForm
		found := false
		for _, b := range ctor.Blocks {
			for _, ins := range b.Instrs {
				if call, ok := ins.(*ssa.Call); ok && call.Common().StaticCallee() != nil && fname(call.Common().StaticCallee()) == "calendar.NewLunar" {
					ca = affineOf(c, ctor, call.Common().Args[0], 0)
					found = true
					var rest []string
					for _, a := range call.Common().Args[1:] {
						rest = append(rest, describeArg(c, ctor, a))
					}
					r.check(equalStrs(rest, []string{"p1", "p2", "p3", "p4", "p5"}), rule, t.ctor+" passes month, day and time through unchanged", c.fnPos(ctor), "arguments 2..6 of NewLunar: "+strings.Join(rest, ", "))
				}
			}
		}
		inv := found && ca.ok && ca.coef["param:year"] == 1 && ca.k+ca.coef["g:"+t.global]*gk == -t.offset
		r.check(inv, rule, t.ctor+" inverts GetYear", c.fnPos(ctor), fmt.Sprintf("lunar year passed to NewLunar: %s", ca))
	}
}

func r17_2(c *Ctx, r *Report) {
	const rule = "R17.2"
	r.rule(rule, "Month and day are the lunar month and day. GetMonth/GetDay/GetMonthInChinese/GetDayInChinese of Tao and Foto return the lunar object's; NewTaoFromYmd/NewFotoFromYmd delegate with zero time.")
	for _, typ := range []string{"Tao", "Foto"} {
		for _, m := range []string{"GetMonth", "GetDay", "GetMonthInChinese", "GetDayInChinese"} {
			fn := c.Fn(r, rule, "calendar.(*"+typ+")."+m)
			if fn == nil {
				continue
			}
			d := pureDelegation(fn)
			okk := d != nil && fname(d.callee) == "calendar.(*Lunar)."+m && accessPathOf(c, fn, d.call.Common().Args[0]) == "p0.lunar"
			if !okk && len(fn.Blocks) == 1 {
				// a getter of a getter: the returned value is the path p0.lunar.month / p0.lunar.day
				if ret, ok := fn.Blocks[0].Instrs[len(fn.Blocks[0].Instrs)-1].(*ssa.Return); ok && len(ret.Results) == 1 {
					want := map[string]string{"GetMonth": "p0.lunar.month", "GetDay": "p0.lunar.day"}[m]
					okk = want != "" && accessPathOf(c, fn, ret.Results[0]) == want
				}
			}
			r.check(okk, rule, fname(fn)+" returns the lunar object's "+m, c.fnPos(fn), "pure delegation on the wrapped Lunar")
		}
		ymd := c.Fn(r, rule, "calendar.New"+typ+"FromYmd")
		if ymd != nil {
			checkDelegationArgs(c, r, rule, ymd, "calendar.New"+typ, []string{"p0", "p1", "p2", "0", "0", "0"})
		}
	}
}

func r17_3(c *Ctx, r *Report) {
	const rule = "R17.3"
	r.rule(rule, "Predicate inputs. The day-class predicates and festival lists of Tao and Foto read exactly their declared defining inputs: lunar month and day, the plain day pillar, and the solar term of the civil day (spec/inputs.json); the term is obtained through Lunar.GetJieQi, which resolves the alias keys of the term table.")
	declaredInputsRule(c, r, rule, func(ai accessorInputs) bool { return ai.cls.typ == "Tao" || ai.cls.typ == "Foto" }, 40)
	for _, name := range []string{"calendar.(*Tao).IsDayBaJie", "calendar.(*Tao).GetFestivals"} {
		fn := c.Fn(r, rule, name)
		if fn == nil {
			continue
		}
		_, okk := c.eff.Of(fn).Calls["calendar.(*Lunar).GetJieQi"]
		r.check(okk, rule, name+" takes the day's term from Lunar.GetJieQi", c.fnPos(fn), "a direct probe of the term table by canonical name misses the entries stored under alias keys (DONG_ZHI, LI_CHUN, …)")
	}
	festivalTables(c, r, "R17.3t")
}

func r17_4(c *Ctx, r *Report) {
	const rule = "R17.4"
	r.rule(rule, "Year units are not mixed. Wherever a method of Tao or Foto passes a year into the lunar calendar (NewLunar, NewLunarYear, NewLunarMonthFromYm), the argument's affine form is exactly the lunar year — not the Taoist/Buddhist year.")
	n := 0
	for _, typ := range []string{"Tao", "Foto"} {
		for _, fn := range c.methodsOf("calendar", typ) {
			for _, b := range fn.Blocks {
				for _, ins := range b.Instrs {
					call, ok := ins.(*ssa.Call)
					if !ok || call.Common().StaticCallee() == nil {
						continue
					}
					switch fname(call.Common().StaticCallee()) {
					case "calendar.NewLunar", "calendar.NewLunarYear", "calendar.NewLunarMonthFromYm", "calendar.NewLunarFromYmd":
						n++
						a := affineOf(c, fn, call.Common().Args[0], 0)
						okk := a.ok && a.k == 0 && a.coef["p0.lunar.year"] == 1 && len(nonZero(a.coef)) == 1
						r.check(okk, rule, fmt.Sprintf("%s -> %s(year)", fname(fn), call.Common().StaticCallee().Name()), c.pos(call.Pos()), "year argument is "+a.String())
					}
				}
			}
		}
	}
	if n < 1 {
		r.bad(rule, "instance floor R17.4", "-", "no call from Tao/Foto into the lunar calendar found")
	}
}
