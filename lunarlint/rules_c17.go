package main

// C17 — Taoist/Buddhist dates are the lunar date with a fixed year offset.

import (
	"fmt"
	"go/token"
	"sort"
	"strings"

	"golang.org/x/tools/go/ssa"
)

func init() {
	register("C17",
		"the predicates' tables against their textual definitions; anything about the underlying lunar conversion (C01).",
		r17_1, r17_2, r17_3, r17_4, r17_5, r17_6, r17_7, r17_8)
}

// affine form: sum of coef*symbol + constant. Symbols: "param:<name>", "lunar.year" (the
// lunar year reached through getters), "g:<Pkg.Var>" (never-written package integers).
type affineForm struct {
	coef map[string]int64
	k    int64
	ok   bool
}

func (a affineForm) String() string {
	if !a.ok {
		return "non-affine"
	}
	var ks []string
	for k := range a.coef {
		if a.coef[k] != 0 {
			ks = append(ks, k)
		}
	}
	sort.Strings(ks)
	var parts []string
	for _, k := range ks {
		parts = append(parts, fmt.Sprintf("%+d*%s", a.coef[k], k))
	}
	parts = append(parts, fmt.Sprintf("%+d", a.k))
	return strings.Join(parts, " ")
}

func affAdd(a, b affineForm, sign int64) affineForm {
	if !a.ok || !b.ok {
		return affineForm{}
	}
	out := affineForm{coef: map[string]int64{}, k: a.k + sign*b.k, ok: true}
	for k, v := range a.coef {
		out.coef[k] += v
	}
	for k, v := range b.coef {
		out.coef[k] += sign * v
	}
	return out
}

// affineOf computes the affine form of an int value in fn. Field reads reached through
// getter chains from parameter 0 are symbols named by their access path.
func affineOf(c *Ctx, fn *ssa.Function, v ssa.Value, depth int) affineForm {
	if depth > 12 {
		return affineForm{}
	}
	if k, ok := constInt(v); ok {
		return affineForm{coef: map[string]int64{}, k: k, ok: true}
	}
	sym := func(s string) affineForm { return affineForm{coef: map[string]int64{s: 1}, ok: true} }
	switch x := v.(type) {
	case *ssa.Parameter:
		return sym("param:" + x.Name())
	case *ssa.BinOp:
		switch x.Op {
		case token.ADD:
			return affAdd(affineOf(c, fn, x.X, depth+1), affineOf(c, fn, x.Y, depth+1), 1)
		case token.SUB:
			return affAdd(affineOf(c, fn, x.X, depth+1), affineOf(c, fn, x.Y, depth+1), -1)
		case token.MUL:
			l, r := affineOf(c, fn, x.X, depth+1), affineOf(c, fn, x.Y, depth+1)
			if l.ok && r.ok {
				scale := func(a affineForm, k int64) affineForm {
					out := affineForm{coef: map[string]int64{}, k: a.k * k, ok: true}
					for s, cv := range a.coef {
						out.coef[s] = cv * k
					}
					return out
				}
				if len(nonZero(l.coef)) == 0 {
					return scale(r, l.k)
				}
				if len(nonZero(r.coef)) == 0 {
					return scale(l, r.k)
				}
			}
			return affineForm{}
		}
	case *ssa.UnOp:
		if x.Op == token.MUL {
			if g, ok := x.X.(*ssa.Global); ok {
				return sym("g:" + gname(g))
			}
			if p := accessPathOf(c, fn, x); p != "" {
				return sym(p)
			}
			// a field of the object under construction: forward the value stored before
			if fa, ok := x.X.(*ssa.FieldAddr); ok {
				if _, isAlloc := fa.X.(*ssa.Alloc); isAlloc {
					for _, ref := range *fa.X.Referrers() {
						if fa2, ok := ref.(*ssa.FieldAddr); ok && fa2.Field == fa.Field {
							for _, r2 := range *fa2.Referrers() {
								if st, ok := r2.(*ssa.Store); ok && st.Block().Dominates(x.Block()) {
									return affineOf(c, fn, st.Val, depth+1)
								}
							}
						}
					}
				}
			}
		}
		if x.Op == token.SUB {
			return affAdd(affineForm{coef: map[string]int64{}, ok: true}, affineOf(c, fn, x.X, depth+1), -1)
		}
	case *ssa.Call:
		if p := accessPathOf(c, fn, x); p != "" {
			return sym(p)
		}
		// a library function with an affine body over its own receiver (e.g. Tao.GetYear) is inlined
		if callee := x.Common().StaticCallee(); callee != nil && callee.Blocks != nil && len(callee.Blocks) == 1 && len(x.Common().Args) == 1 {
			if ret, ok := callee.Blocks[0].Instrs[len(callee.Blocks[0].Instrs)-1].(*ssa.Return); ok && len(ret.Results) == 1 {
				inner := affineOf(c, callee, ret.Results[0], depth+1)
				if inner.ok {
					base := accessPathOf(c, fn, x.Common().Args[0])
					out := affineForm{coef: map[string]int64{}, k: inner.k, ok: true}
					for s, cv := range inner.coef {
						if strings.HasPrefix(s, "p0") && base != "" {
							out.coef[base+strings.TrimPrefix(s, "p0")] += cv
						} else if strings.HasPrefix(s, "p0") {
							return affineForm{}
						} else {
							out.coef[s] += cv
						}
					}
					return out
				}
			}
		}
	case *ssa.Convert:
		if isIntType(x.X.Type()) {
			return affineOf(c, fn, x.X, depth+1)
		}
	}
	return affineForm{}
}

func nonZero(m map[string]int64) []string {
	var out []string
	for k, v := range m {
		if v != 0 {
			out = append(out, k)
		}
	}
	return out
}

// accessPathOf: "p0.lunar.year"-style path of a value reached from a parameter through
// field loads and pure getters; "" when it is not such a path.
func accessPathOf(c *Ctx, fn *ssa.Function, v ssa.Value) string {
	switch x := v.(type) {
	case *ssa.Parameter:
		for i, p := range fn.Params {
			if p == x {
				return fmt.Sprintf("p%d", i)
			}
		}
	case *ssa.UnOp:
		if x.Op == token.MUL {
			if fa, ok := x.X.(*ssa.FieldAddr); ok {
				if base := accessPathOf(c, fn, fa.X); base != "" {
					return base + "." + strings.SplitN(fieldKeyOf(fa), ".", 2)[1]
				}
			}
		}
	case *ssa.Call:
		if recv, field, ok := getterField(c, x); ok {
			if base := accessPathOf(c, fn, recv); base != "" {
				return base + "." + strings.SplitN(field, ".", 2)[1]
			}
		}
	}
	return ""
}

// eraCtorRun follows a constructor of Tao/Foto with the given arguments; NewLunar and New<T>FromLunar are
// read as records of what they are given.
func eraCtorRun(c *Ctx, fn *ssa.Function, typ string, args []int64) (string, string) {
	var leaf leafX
	leaf = func(fr *evalFrame, v ssa.Value) (interface{}, bool) {
		if fr.parent == nil {
			for i, p := range fn.Params {
				if v == ssa.Value(p) && i < len(args) {
					return args[i], true
				}
			}
		}
		call, ok := v.(*ssa.Call)
		if !ok || call.Common().StaticCallee() == nil {
			return nil, false
		}
		switch fname(call.Common().StaticCallee()) {
		case "calendar.NewLunar":
			var parts []string
			for _, a := range call.Common().Args {
				x, ok := evalWith(fr, a, leaf)
				if !ok {
					return nil, false
				}
				parts = append(parts, fmt.Sprint(x))
			}
			return absPtr{"lunar(" + strings.Join(parts, ",") + ")", false}, true
		case "calendar.New" + typ + "FromLunar":
			x, ok := evalWith(fr, call.Common().Args[0], leaf)
			if p, isP := x.(absPtr); ok && isP {
				return absPtr{typ + " of " + p.tag, false}, true
			}
			return nil, false
		}
		return nil, false
	}
	ev := &evaluator{inline: inlineLibrary, leaf: leaf}
	res, outcome := ev.run(fn, nil, nil, nil, nil)
	if outcome != "return" || len(res) != 1 {
		return "", outcome + " " + ev.fail
	}
	if p, ok := res[0].(absPtr); ok {
		return p.tag, ""
	}
	return fmt.Sprint(res[0]), ""
}

func r17_1(c *Ctx, r *Report) {
	const rule = "R17.1"
	r.rule(rule, "The year is the lunar year plus the era's offset, and the constructors invert it. Followed by the evaluator (helpers inline, the never-written epoch variables folded): Tao.GetYear is the lunar year + 2697 and NewTao(y, m, d, h, mi, s) builds its date on NewLunar(y - 2697, m, d, h, mi, s) — month, day and time of day passed through in that order; Foto.GetYear is the lunar year + 544 and NewFoto builds on NewLunar(y - 544, ...); for a spread of years including the extremes of the range.")
	for _, t := range []struct {
		typ    string
		offset int64
	}{{"Tao", 2697}, {"Foto", 544}} {
		get := c.Fn(r, rule, "calendar.(*"+t.typ+").GetYear")
		ctor := c.Fn(r, rule, "calendar.New"+t.typ)
		if get == nil || ctor == nil || len(get.Params) != 1 {
			continue
		}
		var bad []string
		years := []int64{-2697, -543, 0, 1, 1582, 2024, 9999}
		for _, y := range years {
			leaf := func(fr *evalFrame, v ssa.Value) (interface{}, bool) {
				if _, f, ok := getterField(c, v); ok {
					switch {
					case f == "Lunar.year":
						return y, true
					case strings.HasSuffix(f, ".lunar"):
						return absPtr{"lunar", false}, true
					}
				}
				return nil, false
			}
			ev := &evaluator{inline: inlineLibrary, leaf: leaf}
			res, outcome := ev.run(get, nil, nil, nil, nil)
			if outcome != "return" || len(res) != 1 {
				bad = append(bad, "not followed: "+outcome+" "+ev.fail)
				break
			}
			if res[0] != interface{}(y+t.offset) {
				bad = append(bad, fmt.Sprintf("lunar year %d: %v, expected %d", y, res[0], y+t.offset))
			}
		}
		r.check(len(bad) == 0, rule, fmt.Sprintf("calendar.(*%s).GetYear is the lunar year + %d", t.typ, t.offset), c.fnPos(get), fmt.Sprintf("%d lunar years followed; deviations: %v", len(years), headList(bad, 3)))
		bad = nil
		for _, y := range years {
			got, problem := eraCtorRun(c, ctor, t.typ, []int64{y + t.offset, -4, 29, 23, 58, 59})
			want := fmt.Sprintf("%s of lunar(%d,-4,29,23,58,59)", t.typ, y)
			if problem != "" {
				bad = append(bad, "not followed: "+problem)
				break
			}
			if got != want {
				bad = append(bad, fmt.Sprintf("New%s(%d,-4,29,23,58,59) builds %s, expected %s", t.typ, y+t.offset, got, want))
			}
		}
		r.check(len(bad) == 0, rule, "calendar.New"+t.typ+" inverts GetYear and passes month, day and time through unchanged", c.fnPos(ctor), fmt.Sprintf("%d years followed; deviations: %v", len(years), headList(bad, 3)))
	}
}

func r17_2(c *Ctx, r *Report) {
	const rule = "R17.2"
	r.rule(rule, "Month and day are the lunar month and day. GetMonth/GetDay/GetMonthInChinese/GetDayInChinese of Tao and Foto return the lunar object's; NewTaoFromYmd/NewFotoFromYmd delegate with zero time.")
	for _, typ := range []string{"Tao", "Foto"} {
		for _, m := range []string{"GetMonth", "GetDay", "GetMonthInChinese", "GetDayInChinese"} {
			fn := c.Fn(r, rule, "calendar.(*"+typ+")."+m)
			if fn == nil {
				continue
			}
			d := pureDelegation(fn)
			okk := d != nil && fname(d.callee) == "calendar.(*Lunar)."+m && accessPathOf(c, fn, d.call.Common().Args[0]) == "p0.lunar"
			if !okk && len(fn.Blocks) == 1 {
				// a getter of a getter: the returned value is the path p0.lunar.month / p0.lunar.day
				if ret, ok := fn.Blocks[0].Instrs[len(fn.Blocks[0].Instrs)-1].(*ssa.Return); ok && len(ret.Results) == 1 {
					want := map[string]string{"GetMonth": "p0.lunar.month", "GetDay": "p0.lunar.day"}[m]
					okk = want != "" && accessPathOf(c, fn, ret.Results[0]) == want
				}
			}
			r.check(okk, rule, fname(fn)+" returns the lunar object's "+m, c.fnPos(fn), "pure delegation on the wrapped Lunar")
		}
		ymd, full := c.Fn(r, rule, "calendar.New"+typ+"FromYmd"), c.FuncBy["calendar.New"+typ]
		if ymd != nil && full != nil {
			// the date-only constructor builds what the full one builds with a zero time of day (both followed)
			var bad []string
			for _, y := range []int64{1, 2024, 4721} {
				got, p1 := eraCtorRun(c, ymd, typ, []int64{y, 12, 30})
				want, p2 := eraCtorRun(c, full, typ, []int64{y, 12, 30, 0, 0, 0})
				if p1 != "" || p2 != "" {
					bad = append(bad, "not followed: "+p1+p2)
					break
				}
				if got != want {
					bad = append(bad, fmt.Sprintf("New%sFromYmd(%d,12,30) builds %s, New%s(%d,12,30,0,0,0) builds %s", typ, y, got, typ, y, want))
				}
			}
			r.check(len(bad) == 0, rule, "calendar.New"+typ+"FromYmd builds what calendar.New"+typ+" builds at 00:00:00", c.fnPos(ymd), fmt.Sprintf("3 dates followed; deviations: %v", headList(bad, 2)))
		}
	}
}

func r17_3(c *Ctx, r *Report) {
	const rule = "R17.3"
	r.rule(rule, "Predicate inputs. The day-class predicates and festival lists of Tao and Foto read exactly their declared defining inputs: lunar month and day, the plain day pillar, and the solar term of the civil day (spec/inputs.json); the term is obtained through Lunar.GetJieQi, which resolves the alias keys of the term table.")
	declaredInputsRule(c, r, rule, func(ai accessorInputs) bool { return ai.cls.typ == "Tao" || ai.cls.typ == "Foto" }, 40)
	for _, name := range []string{"calendar.(*Tao).IsDayBaJie", "calendar.(*Tao).GetFestivals"} {
		fn := c.Fn(r, rule, name)
		if fn == nil {
			continue
		}
		_, okk := c.eff.Of(fn).Calls["calendar.(*Lunar).GetJieQi"]
		r.check(okk, rule, name+" takes the day's term from Lunar.GetJieQi", c.fnPos(fn), "a direct probe of the term table by canonical name misses the entries stored under alias keys (DONG_ZHI, LI_CHUN, …)")
	}
	festivalTables(c, r, "R17.3t")
}

func r17_4(c *Ctx, r *Report) {
	const rule = "R17.4"
	r.rule(rule, "Year units are not mixed. Wherever a method of Tao or Foto passes a year into the lunar calendar (NewLunar, NewLunarYear, NewLunarMonthFromYm), the argument's affine form is exactly the lunar year — not the Taoist/Buddhist year.")
	n := 0
	for _, typ := range []string{"Tao", "Foto"} {
		for _, fn := range c.methodsOf("calendar", typ) {
			for _, b := range fn.Blocks {
				for _, ins := range b.Instrs {
					call, ok := ins.(*ssa.Call)
					if !ok || call.Common().StaticCallee() == nil {
						continue
					}
					switch fname(call.Common().StaticCallee()) {
					case "calendar.NewLunar", "calendar.NewLunarYear", "calendar.NewLunarMonthFromYm", "calendar.NewLunarFromYmd":
						n++
						a := affineOf(c, fn, call.Common().Args[0], 0)
						okk := a.ok && a.k == 0 && a.coef["p0.lunar.year"] == 1 && len(nonZero(a.coef)) == 1
						r.check(okk, rule, fmt.Sprintf("%s -> %s(year)", fname(fn), call.Common().StaticCallee().Name()), c.pos(call.Pos()), "year argument is "+a.String())
					}
				}
			}
		}
	}
	if n < 1 {
		r.bad(rule, "instance floor R17.4", "-", "no call from Tao/Foto into the lunar calendar found")
	}
}
