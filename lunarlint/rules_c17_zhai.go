package main

// R17.7 — the Buddhist fasting-day predicates as decision tables.

import (
	"fmt"
	"sort"
	"strings"

	"golang.org/x/tools/go/ssa"
)

// accessors whose value is decided completely by a decision-table rule: reads beyond their declared
// inputs are shown there not to matter (the table varies those inputs too)
var decidedByTable = map[string]string{
	"calendar.(*Foto).IsMonthZhai":       "R17.7",
	"calendar.(*Foto).IsDayZhaiShuoWang": "R17.7",
	"calendar.(*Foto).IsDayZhaiSix":      "R17.7",
	"calendar.(*Foto).IsDayZhaiTen":      "R17.7",
	"calendar.(*Lunar).GetFestivals":     "R13.4",
	// a table over a day algebra in which the components of a moment are opaque (compared like with like or handed
	// to a constructor together): a date taken apart and calculated with is reported there as not followed
	"calendar.(*Lunar).GetOtherFestivals": "R13.5",
	// followed for every lunar year 0..9999 against (2026 - year) mod 9
	"calendar.(*LunarYear).GetNineStar": "R16.5",
}

var equivalentInputs = map[string]map[string]string{}

// auxDecidedBy: accessors that hand their own date to a builder decided by evaluation. Which pillar fields of the
// object built there are read (the "aux:" inputs: functions of the date handed over, never inputs of their own) is
// then the builder's business, decided by the rule named.
var auxDecidedBy = map[string]string{
	"calendar.(*Lunar).GetTime":  "R05.3 (NewLunarTime, followed for every hour and day stem)",
	"calendar.(*Lunar).GetTimes": "R05.3 (NewLunarTime, followed for every hour and day stem)",
}

// auxOnlyDifference: the two input lists differ in "aux:" atoms only.
func auxOnlyDifference(a, b []string) bool {
	strip := func(xs []string) []string {
		var out []string
		for _, x := range xs {
			if !strings.HasPrefix(x, "aux:") {
				out = append(out, x)
			}
		}
		return out
	}
	return equalStrs(strip(a), strip(b))
}

func r17_7(c *Ctx, r *Report) {
	const rule = "R17.7"
	r.rule(rule, "Fasting-day predicates of Foto as decision tables over the lunar month (1..12 and leap months), the day (1..30) and the length of the month (29, 30, or no such month): IsMonthZhai iff month is 1, 5 or 9; IsDayZhaiShuoWang iff day is 1 or 15; IsDayZhaiSix iff day is 8, 14, 15, 23, 29, 30, or 28 in a month that exists and has not 30 days; IsDayZhaiTen iff day is 1, 8, 14, 15, 18, 23, 24, 28, 29, 30 — whatever the month length; IsDayZhaiGuanYin iff month-day is listed in FotoUtil.DAY_ZHAI_GUAN_YIN (the search loop as a table over the iteration number); IsDayYangGong iff one of the day's festivals (FotoUtil.FESTIVAL, the list walked element by element) is 杨公忌, wherever it stands in the list.")
	in := func(d int64, set ...int64) bool {
		for _, x := range set {
			if x == d {
				return true
			}
		}
		return false
	}
	type env struct {
		m, d, ml int64
		fests    []string
	}
	mkLeaf := func(fn *ssa.Function, e *env) leafX {
		var leaf leafX
		leaf = func(fr *evalFrame, v ssa.Value) (interface{}, bool) {
			if rc, f, ok := getterField(c, v); ok {
				switch f {
				case "Lunar.month":
					return e.m, true
				case "Lunar.day":
					return e.d, true
				case "Lunar.year":
					return int64(2020), true
				case "LunarMonth.dayCount":
					if o, ok := evalWith(fr, rc, leaf); ok {
						if p, isP := o.(absPtr); isP && p.tag == "month" && !p.isNil {
							return e.ml, true
						}
					}
				case "Element.Value":
					if o, ok := evalWith(fr, rc, leaf); ok {
						if p, isP := o.(absPtr); isP && strings.HasPrefix(p.tag, "elem:") && !p.isNil {
							var i int
							fmt.Sscanf(p.tag, "elem:%d", &i)
							if i < len(e.fests) {
								return "festival:" + e.fests[i], true
							}
						}
					}
				case "FotoFestival.name":
					if o, ok := evalWith(fr, rc, leaf); ok {
						if s, isS := o.(string); isS && strings.HasPrefix(s, "festival:") {
							return strings.TrimPrefix(s, "festival:"), true
						}
					}
				}
			}
			call, ok := v.(*ssa.Call)
			if !ok || call.Common().StaticCallee() == nil {
				return nil, false
			}
			callee := call.Common().StaticCallee()
			switch {
			case callee.Name() == "NewLunarMonthFromYm" && callee.Signature.Recv() == nil:
				return absPtr{"month", e.ml == 0}, true
			case recvIsNamed(callee, "Foto") && callee.Name() == "GetFestivals":
				return absPtr{"festivals", false}, true
			case callee.String() == "(*container/list.List).Front":
				return absPtr{"elem:0", len(e.fests) == 0}, true
			case callee.String() == "(*container/list.List).Len":
				return int64(len(e.fests)), true
			case callee.String() == "(*container/list.Element).Next":
				if o, ok := evalWith(fr, call.Common().Args[0], leaf); ok {
					if p, isP := o.(absPtr); isP && strings.HasPrefix(p.tag, "elem:") && !p.isNil {
						var i int
						fmt.Sscanf(p.tag, "elem:%d", &i)
						return absPtr{fmt.Sprintf("elem:%d", i+1), i+1 >= len(e.fests)}, true
					}
				}
			}
			return nil, false
		}
		return leaf
	}
	run := func(fn *ssa.Function, e *env) string {
		ev := &evaluator{leaf: mkLeaf(fn, e), inline: func(callee *ssa.Function) bool {
			return inlineLibrary(callee) && callee.Name() != "GetFestivals"
		}, counted: 400}
		res, outcome := ev.runCounted(fn, 400)
		if outcome == "return" && len(res) == 1 {
			return fmt.Sprint(res[0])
		}
		return outcome + " " + ev.fail
	}
	report := func(fn *ssa.Function, construct string, n int, bad []string) {
		sort.Strings(bad)
		r.check(len(bad) == 0 && n > 0, rule, construct, c.fnPos(fn), fmt.Sprintf("%d assignments; deviations: %v", n, headList(bad, 3)))
	}
	months := []int64{1, 2, 3, 4, 5, 6, 7, 8, 9, 10, 11, 12, -1, -5, -9, -4}
	type pred struct {
		name string
		want func(e *env) bool
	}
	for _, p := range []pred{
		{"IsMonthZhai", func(e *env) bool { return in(e.m, 1, 5, 9) }},
		{"IsDayZhaiShuoWang", func(e *env) bool { return in(e.d, 1, 15) }},
		{"IsDayZhaiSix", func(e *env) bool { return in(e.d, 8, 14, 15, 23, 29, 30) || (e.d == 28 && e.ml != 0 && e.ml != 30) }},
		{"IsDayZhaiTen", func(e *env) bool { return in(e.d, 1, 8, 14, 15, 18, 23, 24, 28, 29, 30) }},
	} {
		fn := c.Fn(r, rule, "calendar.(*Foto)."+p.name)
		if fn == nil || len(fn.Params) != 1 {
			continue
		}
		var bad []string
		n := 0
		for _, m := range months {
			for d := int64(1); d <= 30; d++ {
				for _, ml := range []int64{29, 30, 0} {
					if len(bad) >= 4 {
						continue
					}
					e := &env{m: m, d: d, ml: ml}
					got := run(fn, e)
					n++
					if got != fmt.Sprint(p.want(e)) {
						bad = append(bad, fmt.Sprintf("month %d day %d, month length %d: %s, stated %v", m, d, ml, got, p.want(e)))
					}
				}
			}
		}
		report(fn, "calendar.(*Foto)."+p.name, n, bad)
	}
	if fn := c.Fn(r, rule, "calendar.(*Foto).IsDayZhaiGuanYin"); fn != nil && len(fn.Params) == 1 {
		listed := map[string]bool{}
		for _, k := range c.tabStrs(r, rule, "FotoUtil", "DAY_ZHAI_GUAN_YIN") {
			listed[k] = true
		}
		var bad []string
		n := 0
		for _, m := range months {
			for d := int64(1); d <= 30 && len(bad) < 4; d++ {
				e := &env{m: m, d: d, ml: 30}
				got := run(fn, e)
				n++
				if want := listed[fmt.Sprintf("%d-%d", m, d)]; got != fmt.Sprint(want) {
					bad = append(bad, fmt.Sprintf("month %d day %d: %s, stated %v", m, d, got, want))
				}
			}
		}
		report(fn, "calendar.(*Foto).IsDayZhaiGuanYin", n, bad)
	}
	if fn := c.Fn(r, rule, "calendar.(*Foto).IsDayYangGong"); fn != nil && len(fn.Params) == 1 {
		if fest := c.tabMap(r, rule, "FotoUtil", "FESTIVAL"); fest != nil {
			var bad []string
			n := 0
			cases := [][]string{{}, {"杨公忌"}, {"杨公忌", "x"}, {"x", "杨公忌"}, {"x", "y"}, {"x", "杨公忌", "y"}}
			for _, k := range fest.Keys {
				var names []string
				if v := fest.M[k]; v != nil && v.Kind == "list" {
					for _, o := range v.L {
						if o.Kind == "list" && len(o.L) > 0 {
							names = append(names, o.L[0].S)
						}
					}
				}
				cases = append(cases, names)
			}
			for _, names := range cases {
				if len(bad) >= 4 {
					break
				}
				e := &env{m: 1, d: 13, ml: 30, fests: names}
				got := run(fn, e)
				n++
				want := false
				for _, x := range names {
					if x == "杨公忌" {
						want = true
					}
				}
				if got != fmt.Sprint(want) {
					bad = append(bad, fmt.Sprintf("festivals %v: %s, stated %v", names, got, want))
				}
			}
			report(fn, "calendar.(*Foto).IsDayYangGong", n, bad)
		}
	}
	r.floor(rule, 6)
}
