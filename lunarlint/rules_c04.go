package main

// C04 — civil date arithmetic: order, the 1582 gap, delegation, unit constants.

import (
	"fmt"
	"go/token"
	"math/big"
	"sort"
	"strings"

	"golang.org/x/tools/go/ssa"
)

func init() {
	register("C04",
		"exactness of the Julian-Day formula and of its floating-point inverse, additivity of NextDay over month lengths, minute/hour carries, and every other numeric agreement between the stepping functions and the day count.",
		r04_1, r04_2, r04_3, r04_4, r04_5, r04_6, r04_8, r04_9, r07_3, r15_7)
}

var solarComponent = map[string]int{"Solar.year": 0, "Solar.month": 1, "Solar.day": 2, "Solar.hour": 3, "Solar.minute": 4, "Solar.second": 5}

// componentOf maps an operand of a date comparison to (side, component).
func componentOf(c *Ctx, fn *ssa.Function, v ssa.Value) (side, comp int, ok bool) {
	if p, isP := v.(*ssa.Parameter); isP && isIntType(p.Type()) {
		n := 0
		for _, q := range fn.Params {
			if isIntType(q.Type()) {
				if q == p {
					return n / 6, n % 6, true
				}
				n++
			}
		}
	}
	if recv, field, isG := getterField(c, v); isG {
		ci, known := solarComponent[field]
		if !known {
			return 0, 0, false
		}
		for i, q := range fn.Params {
			if recv == ssa.Value(q) {
				return i, ci, true
			}
		}
	}
	return 0, 0, false
}

// absComp is one component (0 year .. 5 second) of one of the two dates being compared.
type absComp struct{ side, comp int }

// lexOrderTable checks that fn decides the strict lexicographic order (before: a < b, after: a > b)
// on all 3^6 orderings of the six components. The evaluator follows fn (delegations inline); the
// components are abstract values that can only be compared, like with like, across the two dates.
func lexOrderTable(c *Ctx, fn *ssa.Function, wantAfter bool) (n int, problem string) {
	o := make([]int, 6)
	var leaf leafX
	leaf = func(fr *evalFrame, v ssa.Value) (interface{}, bool) {
		if fr.parent == nil {
			if p, isP := v.(*ssa.Parameter); isP && isIntType(p.Type()) {
				k := 0
				for _, q := range fn.Params {
					if isIntType(q.Type()) {
						if q == p {
							return absComp{k / 6, k % 6}, true
						}
						k++
					}
				}
			}
		}
		if recv, field, isG := getterField(c, v); isG {
			if ci, known := solarComponent[field]; known {
				if ofr, ov := fr.origin(recv); ofr.parent == nil {
					for i, q := range fn.Params {
						if ov == ssa.Value(q) {
							return absComp{i, ci}, true
						}
					}
				}
			}
		}
		if bo, isBin := v.(*ssa.BinOp); isBin && isIntType(bo.X.Type()) {
			switch bo.Op {
			case token.LSS, token.LEQ, token.GTR, token.GEQ, token.EQL, token.NEQ:
				x, ok1 := evalWith(fr, bo.X, leaf)
				y, ok2 := evalWith(fr, bo.Y, leaf)
				cx, isX := x.(absComp)
				cy, isY := y.(absComp)
				if !isX && !isY {
					return nil, false // an ordinary integer comparison (a loop counter against a bound): the evaluator's own business
				}
				if !ok1 || !ok2 || !isX || !isY {
					if problem == "" {
						problem = "comparison operand is not a date component of one of the two dates: " + bo.String()
					}
					return nil, false
				}
				if cx.comp != cy.comp || cx.side == cy.side {
					if problem == "" {
						problem = fmt.Sprintf("comparison mixes components (%d of date %d with %d of date %d): %s", cx.comp, cx.side, cy.comp, cy.side, bo.String())
					}
					return nil, false
				}
				rel := o[cx.comp] // relation of date 0's component to date 1's
				if cx.side == 1 {
					rel = -rel
				}
				return cmpHolds(rel, bo.Op), true
			}
		}
		return nil, false
	}
	var rec func(i int) string
	rec = func(i int) string {
		if i < 6 {
			for _, v := range []int{-1, 0, 1} {
				o[i] = v
				if msg := rec(i + 1); msg != "" {
					return msg
				}
			}
			return ""
		}
		n++
		ev := &evaluator{inline: inlineLibrary, leaf: leaf}
		res, outcome := ev.run(fn, nil, nil, nil, nil)
		if problem != "" {
			return problem
		}
		if outcome != "return" || len(res) != 1 {
			return "the function could not be followed: " + outcome + " " + ev.fail
		}
		result, isB := res[0].(bool)
		if !isB {
			return "the result is not a boolean"
		}
		want := false
		for k := 0; k < 6; k++ {
			if o[k] != 0 {
				want = (o[k] > 0) == wantAfter
				break
			}
		}
		if result != want {
			names := []string{"year", "month", "day", "hour", "minute", "second"}
			var desc []string
			for k := 0; k < 6; k++ {
				desc = append(desc, names[k]+map[int]string{-1: "<", 0: "=", 1: ">"}[o[k]])
			}
			return fmt.Sprintf("for the ordering (%s) of the first date against the second the function returns %v, the strict lexicographic order says %v", strings.Join(desc, " "), result, want)
		}
		return ""
	}
	return n, rec(0)
}

func r04_1(c *Ctx, r *Report) {
	const rule = "R04.1"
	r.rule(rule, "IsBefore / IsAfter are the strict lexicographic orders on (year, month, day, hour, minute, second). The functions touch their operands only through integer comparisons of like components; all 3^6 component orderings are enumerated, the evaluator follows the function (a delegation to another of them is read inline) with the components as abstract values and the result is compared with the lexicographic order; this is done for SolarUtil.IsBefore, Solar.IsBefore and Solar.IsAfter.")
	for _, t := range []struct {
		name  string
		after bool
	}{{"SolarUtil.IsBefore", false}, {"calendar.(*Solar).IsBefore", false}, {"calendar.(*Solar).IsAfter", true}} {
		fn := c.Fn(r, rule, t.name)
		if fn == nil {
			continue
		}
		n, problem := lexOrderTable(c, fn, t.after)
		if problem == "" {
			r.ok(rule, t.name+" is the strict lexicographic order", c.fnPos(fn), fmt.Sprintf("%d component orderings enumerated, all agree", n))
		} else {
			r.bad(rule, t.name+" is the strict lexicographic order", c.fnPos(fn), problem)
		}
	}
}

// describeArg renders a call argument as p<i>.<field> (getter or field of parameter i), a parameter name or a constant.
func describeArg(c *Ctx, fn *ssa.Function, v ssa.Value) string {
	if recv, field, ok := getterField(c, v); ok {
		for i, q := range fn.Params {
			if recv == ssa.Value(q) {
				return fmt.Sprintf("p%d.%s", i, strings.SplitN(field, ".", 2)[1])
			}
		}
	}
	if p, ok := v.(*ssa.Parameter); ok {
		for i, q := range fn.Params {
			if q == p {
				return fmt.Sprintf("p%d", i)
			}
		}
	}
	if k, ok := v.(*ssa.Const); ok && k.Value != nil {
		return k.Value.String()
	}
	return "?" + v.Name()
}

func checkDelegationArgs(c *Ctx, r *Report, rule string, fn *ssa.Function, callee string, want []string) {
	d := pureDelegation(fn)
	construct := fmt.Sprintf("%s delegates to %s(%s)", fname(fn), callee, strings.Join(want, ", "))
	if d == nil || fname(d.callee) != callee {
		r.bad(rule, construct, c.fnPos(fn), "not a pure delegation to "+callee)
		return
	}
	var got []string
	for _, a := range d.call.Common().Args {
		got = append(got, describeArg(c, fn, a))
	}
	r.check(equalStrs(got, want), rule, construct, c.fnPos(fn), "arguments passed: "+strings.Join(got, ", "))
}

// ---------- R04.2 the 1582 gap ----------

func isEqConst(cond ssa.Value, k int64) (ssa.Value, bool) {
	bo, ok := cond.(*ssa.BinOp)
	if !ok || bo.Op != token.EQL {
		return nil, false
	}
	if v, ok := constInt(bo.X); ok && v == k {
		return bo.Y, true
	}
	if v, ok := constInt(bo.Y); ok && v == k {
		return bo.X, true
	}
	return nil, false
}

type gapAction struct {
	lo, hi int64
	action string
}

// analyseGapRegion enumerates the paths inside the region and returns, per path,
// the interval of the tested day variable (over 1..31) and the action taken.
func analyseGapRegion(g gapSite) ([]gapAction, string) {
	paths, ok := enumPaths(g.entry, func(from, to *ssa.BasicBlock) bool { return !g.entry.Dominates(to) }, 64)
	if !ok {
		return nil, "region is not loop-free"
	}
	var out []gapAction
	for pi := range paths {
		p := &paths[pi]
		lo, hi := int64(1), int64(31)
		for _, pc := range p.conds {
			bo, ok := pc.cond.(*ssa.BinOp)
			if !ok {
				continue
			}
			k, isK := constInt(bo.Y)
			op := bo.Op
			if !isK {
				if k2, isK2 := constInt(bo.X); isK2 {
					k, isK, op = k2, true, flipOp(bo.Op)
				}
			}
			if !isK {
				continue
			}
			if !pc.truth {
				op = negateOp(op)
			}
			switch op {
			case token.GTR:
				if k+1 > lo {
					lo = k + 1
				}
			case token.GEQ:
				if k > lo {
					lo = k
				}
			case token.LSS:
				if k-1 < hi {
					hi = k - 1
				}
			case token.LEQ:
				if k < hi {
					hi = k
				}
			}
		}
		if lo > hi {
			continue
		}
		action := "none"
		for _, b := range p.blocks {
			if !g.entry.Dominates(b) {
				continue
			}
			for _, ins := range b.Instrs {
				switch x := ins.(type) {
				case *ssa.Panic:
					action = "panic"
				case *ssa.BinOp:
					if a := gapAddAction(g.fr, x); a != "" {
						action = a
					}
				case *ssa.Return:
					if len(x.Results) == 1 {
						if k, ok := constInt(x.Results[0]); ok {
							action = fmt.Sprintf("return %d", k)
						}
					}
				}
			}
		}
		out = append(out, gapAction{lo, hi, action})
	}
	sort.Slice(out, func(i, j int) bool { return out[i].lo < out[j].lo })
	return out, ""
}

func gapTableString(as []gapAction) string {
	var parts []string
	for _, a := range as {
		if a.action == "none" {
			continue
		}
		parts = append(parts, fmt.Sprintf("[%d,%d]:%s", a.lo, a.hi, a.action))
	}
	return strings.Join(parts, " ")
}

func r04_2(c *Ctx, r *Report) {
	const rule = "R04.2"
	r.rule(rule, "The 1582 gap is described consistently. A gap site is a region of code that runs only when something == 1582 and something == 10 are known (E13 facts: nested or merged ifs, boolean helpers), in a function or in the helpers it hands its work to. The two stepping functions that contain loops are analysed by path enumeration with interval constraints on the day inside their sites: GetDaysInYear rejects 5..14 and subtracts 10 from 15..31; NextDay removes the 10 missing days before stepping and re-inserts them after (days > 4), the removal looking at the receiver's own year and month and the re-insertion at the year and month the result is built with, and the two tests are passed as a pair (no path returns after the removal test without passing the re-insertion test, or reaches the second without the first; a path that passes neither returns its input unchanged). The loop-free sites (NewSolar, NextYear, NextMonth, GetDaysOfMonth and their helpers) are decided as decision tables by R04.8; a gap site in a function that none of these reaches is unreviewed and fails. GetJulianDay compares 372*year + 31*month + whole day — an affine form over its parameters (E11b), the year and month as given, not after January and February were moved to the end of the previous year — with 1582*372+10*31+15; NewSolarFromJulianDay's switch constant is the day number of 1582-10-15.")
	expect := map[string][]string{
		"SolarUtil.GetDaysInYear":   {"[5,14]:panic [15,31]:-10"},
		"calendar.(*Solar).NextDay": {"[5,31]:-10", "[5,31]:+10"},
	}
	// the loop-free gap sites are decided as decision tables by R04.8
	byTable := []string{"calendar.NewSolar", "calendar.(*Solar).NextYear", "calendar.(*Solar).NextMonth", "SolarUtil.GetDaysOfMonth"}
	stop := map[string]bool{}
	var names []string
	for n := range expect {
		names = append(names, n)
		stop[n] = true
	}
	for _, n := range byTable {
		stop[n] = true
	}
	sort.Strings(names)
	reviewed := map[*ssa.Function]bool{}
	for _, n := range byTable {
		if fn := c.FuncBy[n]; fn != nil {
			for _, fr := range helperTree(c, fn, stop) {
				reviewed[fr.fn] = true
			}
		}
	}
	for _, name := range names {
		fn := c.Fn(r, rule, name)
		if fn == nil {
			continue
		}
		frames := helperTree(c, fn, stop)
		var sites []gapSite
		for _, fr := range frames {
			reviewed[fr.fn] = true
			sites = append(sites, gapSitesIn(c, fr)...)
		}
		var got []string
		for _, g := range sites {
			as, problem := analyseGapRegion(g)
			if problem != "" {
				got = append(got, "?"+problem)
				continue
			}
			got = append(got, gapTableString(as))
		}
		r.check(equalStrs(got, expect[name]), rule, name+" treats October 1582 as "+strings.Join(expect[name], " then "), c.fnPos(fn),
			fmt.Sprintf("derived day intervals and actions where year == 1582 && month == 10 is known (%d functions followed): %q", len(frames), got))
		if name == "calendar.(*Solar).NextDay" && len(sites) == 2 {
			nextDayGapDates(c, r, rule, fn, frames, sites, stop)
		}
	}
	// a gap site nothing above reaches is unreviewed
	cand := mentions1582(c)
	for _, fn := range c.Funcs {
		if reviewed[fn] || !cand[fn] || isInit(fn) {
			continue
		}
		if len(gapSitesIn(c, &evalFrame{fn: fn})) > 0 {
			r.bad(rule, fname(fn)+" has an unreviewed October-1582 special case", c.fnPos(fn), "code that runs only when year == 1582 && month == 10 exists here, and the function is not one of the reviewed gap sites or a helper of one (undecided = fail)")
		}
	}
	// constants
	hasConst := func(fn *ssa.Function, k float64) bool { return fn != nil && floatConstsOf(fn)[k] }
	if fn := c.Fn(r, rule, "SolarUtil.GetJulianDay"); fn != nil && len(fn.Params) == 6 {
		// the quantity compared with 1582*372 + 10*31 + 15, as an affine form over the parameters (E11b): 372 times
		// the year and 31 times the month as they were given (not after January and February have been moved
		// to the end of the previous year) plus the whole day
		want := int64(1582*372 + 10*31 + 15)
		found, detail := false, "no comparison with 1582*372 + 10*31 + 15 found"
		for _, f := range withHelpers(c, fn) {
			if f != fn {
				continue // the comparison is read over the parameters of GetJulianDay itself
			}
			for _, b := range f.Blocks {
				for _, ins := range b.Instrs {
					bo, ok := ins.(*ssa.BinOp)
					if !ok {
						continue
					}
					var other ssa.Value
					var k int64
					op := bo.Op
					if kk, ok := constInt(bo.Y); ok {
						other, k = bo.X, kk
					} else if kk, ok := constInt(bo.X); ok {
						other, k = bo.Y, kk
						op = map[token.Token]token.Token{token.GEQ: token.LEQ, token.LEQ: token.GEQ, token.GTR: token.LSS, token.LSS: token.GTR}[op]
					} else {
						continue
					}
					// other >= want, other > want-1, other < want, other <= want-1
					if !((op == token.GEQ || op == token.LSS) && k == want) && !((op == token.GTR || op == token.LEQ) && k == want-1) {
						continue
					}
					form := ratAffineOf(&evalFrame{fn: fn}, other, 0)
					var rest []string
					for n, q := range form.coef {
						if n != fn.Params[0].Name() && n != fn.Params[1].Name() {
							rest = append(rest, q.RatString()+"*"+n)
						}
					}
					sort.Strings(rest)
					dayOK := false
					if len(rest) == 1 && form.coef[fn.Params[2].Name()] != nil && form.coef[fn.Params[2].Name()].Cmp(big.NewRat(1, 1)) == 0 {
						dayOK = true // the day itself
					} else if len(rest) == 1 && strings.HasPrefix(rest[0], "1*[") {
						// the whole part of day + time of day
						name := strings.TrimSuffix(strings.TrimPrefix(rest[0], "1*["), "@"+fn.Name()+"]")
						for _, b2 := range fn.Blocks {
							for _, i2 := range b2.Instrs {
								if cv, ok := i2.(*ssa.Convert); ok && cv.Name() == name && isFloatType(cv.X.Type()) && isIntType(cv.Type()) {
									in := ratAffineOf(&evalFrame{fn: fn}, cv.X, 0)
									dayOK = ratCoefString(in, fn.Params[2].Name()) == "1" && ratCoefString(in, fn.Params[0].Name()) == "0" && ratCoefString(in, fn.Params[1].Name()) == "0"
								}
							}
						}
					}
					detail = fmt.Sprintf("compared with %d: %s*year + %s*month + %v + %s", want, ratCoefString(form, fn.Params[0].Name()), ratCoefString(form, fn.Params[1].Name()), rest, form.k.RatString())
					if ratCoefString(form, fn.Params[0].Name()) == "372" && ratCoefString(form, fn.Params[1].Name()) == "31" && form.k.Sign() == 0 && dayOK {
						found = true
					}
				}
			}
		}
		r.check(found, rule, "SolarUtil.GetJulianDay switches to the Gregorian correction at 1582-10-15", c.fnPos(fn), detail+" (stated: 372*year + 31*month + whole day of the date as given)")
	}
	if fn := c.Fn(r, rule, "calendar.NewSolarFromJulianDay"); fn != nil {
		// day number of 1582-10-15 (Gregorian) by the standard civil-to-day-number formula
		y, m, d := 1582, 10, 15
		a := (14 - m) / 12
		yy := y + 4800 - a
		mm := m + 12*a - 3
		jdn := d + (153*mm+2)/5 + 365*yy + yy/4 - yy/100 + yy/400 - 32045
		r.check(hasConst(fn, float64(jdn)), rule, "calendar.NewSolarFromJulianDay switches to the Gregorian correction at the day number of 1582-10-15", c.fnPos(fn), fmt.Sprintf("constant %d", jdn))
	}
	r.floor(rule, 5)
}

// ---------- R04.3 delegation ----------

func r04_3(c *Ctx, r *Report) {
	const rule = "R04.3"
	r.rule(rule, "Derived operations delegate with the right arguments: Subtract(o) is GetDaysBetween(o's y,m,d, own y,m,d) in that order; GetWeek / GetJulianDay / IsLeapYear pass the receiver's own fields in declaration order; Next(n, false) is NextDay(n). (NextHour: R04.5.)")
	for _, t := range []struct {
		fn, callee string
		want       []string
	}{
		{"calendar.(*Solar).Subtract", "SolarUtil.GetDaysBetween", []string{"p1.year", "p1.month", "p1.day", "p0.year", "p0.month", "p0.day"}},
		{"calendar.(*Solar).GetWeek", "SolarUtil.GetWeek", []string{"p0.year", "p0.month", "p0.day"}},
		{"calendar.(*Solar).GetJulianDay", "SolarUtil.GetJulianDay", []string{"p0.year", "p0.month", "p0.day", "p0.hour", "p0.minute", "p0.second"}},
		{"calendar.(*Solar).IsLeapYear", "SolarUtil.IsLeapYear", []string{"p0.year"}},
		{"calendar.(*Solar).GetLunar", "calendar.NewLunarFromSolar", []string{"p0"}},
	} {
		if fn := c.Fn(r, rule, t.fn); fn != nil {
			checkDelegationArgs(c, r, rule, fn, t.callee, t.want)
		}
	}
	if fn := c.Fn(r, rule, "calendar.(*Solar).Next"); fn != nil {
		okk := false
		for _, b := range fn.Blocks {
			for _, ins := range b.Instrs {
				ret, isRet := ins.(*ssa.Return)
				if !isRet || len(ret.Results) != 1 {
					continue
				}
				call, isCall := ret.Results[0].(*ssa.Call)
				if !isCall || call.Common().StaticCallee() == nil || fname(call.Common().StaticCallee()) != "calendar.(*Solar).NextDay" {
					continue
				}
				args := call.Common().Args
				// reached when onlyWorkday is false
				under := false
				for _, blk := range fn.Blocks {
					if iff, ok := blk.Instrs[len(blk.Instrs)-1].(*ssa.If); ok && iff.Cond == ssa.Value(fn.Params[2]) && blk.Succs[1].Dominates(b) {
						under = true
					}
					if iff, ok := blk.Instrs[len(blk.Instrs)-1].(*ssa.If); ok {
						if u, ok := iff.Cond.(*ssa.UnOp); ok && u.Op == token.NOT && u.X == ssa.Value(fn.Params[2]) && blk.Succs[0].Dominates(b) {
							under = true
						}
					}
				}
				if under && args[0] == ssa.Value(fn.Params[0]) && args[1] == ssa.Value(fn.Params[1]) {
					okk = true
				}
			}
		}
		r.check(okk, rule, "calendar.(*Solar).Next(n, false) is NextDay(n)", c.fnPos(fn), "under !onlyWorkday the result is recv.NextDay(days) with days passed through unchanged")
	}
	// (NextHour is decided completely by evaluation: R04.5)
	r.floor(rule, 5)
}

func r04_4(c *Ctx, r *Report) {
	stepRelevanceRule(c, r, "R04.4", c.steppingMethods("Solar"), 6)
}

// ---------- R04.5 time-unit constants ----------

func countConst(uses []constUse, op token.Token, k int64) int {
	n := 0
	for _, u := range uses {
		if u.op == op && u.k == k {
			n++
		}
	}
	return n
}

func r04_5(c *Ctx, r *Report) {
	const rule = "R04.5"
	r.rule(rule, "Time units. SubtractMinute(o) is 1440 * (day difference) + (own hour*60 + minute) - (o's hour*60 + minute), the day difference being Subtract(o): followed by the evaluator for day differences -2..2 and times of day on both sides; NextHour(n) moves the date by floor((hour + n) / 24) days through NextDay and sets the hour to (hour + n) mod 24, minute and second unchanged: followed for every start hour and n in -60..60 (the date calls are abstract inputs). The expression GetJulianDay returns, as an affine form with exact rational coefficients over its parameters (E11b: helpers inline, truncations and merges are atoms), has coefficient 1 for the day, 1/24 for the hour, 1/1440 for the minute and 1/86400 for the second; (NewSolarFromJulianDay's split of the fraction and its carries are followed from the number itself: R04.9.)")
	solarFields := func(recv ssa.Value, vals [6]int64, fr *evalFrame, v ssa.Value) (interface{}, bool) {
		if rc, f, ok := getterField(c, v); ok {
			if ofr, o := fr.origin(rc); ofr.parent == nil && o == recv {
				if i, known := solarComponent[f]; known {
					return vals[i], true
				}
			}
		}
		return nil, false
	}
	if fn := c.Fn(r, rule, "calendar.(*Solar).SubtractMinute"); fn != nil && len(fn.Params) == 2 {
		var bad []string
		n := 0
		for dd := int64(-2); dd <= 2; dd++ {
			for _, a := range [][2]int64{{0, 0}, {23, 59}, {10, 30}} {
				for _, bb := range [][2]int64{{0, 0}, {23, 59}, {10, 31}, {9, 0}} {
					leaf := func(fr *evalFrame, v ssa.Value) (interface{}, bool) {
						if x, ok := solarFields(ssa.Value(fn.Params[0]), [6]int64{2022, 5, 17, a[0], a[1], 7}, fr, v); ok {
							return x, true
						}
						if x, ok := solarFields(ssa.Value(fn.Params[1]), [6]int64{2022, 5, 17, bb[0], bb[1], 9}, fr, v); ok {
							return x, true
						}
						if call, ok := v.(*ssa.Call); ok && call.Common().StaticCallee() != nil && fname(call.Common().StaticCallee()) == "calendar.(*Solar).Subtract" {
							_, x := fr.origin(call.Common().Args[0])
							_, y := fr.origin(call.Common().Args[1])
							if x == ssa.Value(fn.Params[0]) && y == ssa.Value(fn.Params[1]) {
								return dd, true
							}
						}
						return nil, false
					}
					ev := &evaluator{inline: inlineLibrary, leaf: leaf}
					res, outcome := ev.run(fn, nil, nil, nil, nil)
					n++
					want := dd*1440 + (a[0]*60 + a[1]) - (bb[0]*60 + bb[1])
					if outcome != "return" || len(res) != 1 {
						bad = append(bad, "not followed: "+outcome+" "+ev.fail)
					} else if res[0] != interface{}(want) {
						bad = append(bad, fmt.Sprintf("%d days, %02d:%02d minus %02d:%02d gives %v minutes, expected %d", dd, a[0], a[1], bb[0], bb[1], res[0], want))
					}
				}
			}
		}
		sort.Strings(bad)
		r.check(len(bad) == 0 && n == 60, rule, "calendar.(*Solar).SubtractMinute is 1440 * days + difference of the times of day", c.fnPos(fn), fmt.Sprintf("%d cases; deviations: %v", n, headList(dedupe(bad), 3)))
	}
	if fn := c.Fn(r, rule, "calendar.(*Solar).NextHour"); fn != nil && len(fn.Params) == 2 {
		var bad []string
		n := 0
		for h0 := int64(0); h0 < 24 && len(bad) < 4; h0++ {
			for k := int64(-60); k <= 60; k++ {
				var leaf leafX
				leaf = func(fr *evalFrame, v ssa.Value) (interface{}, bool) {
					if fr.parent == nil && v == ssa.Value(fn.Params[1]) {
						return k, true
					}
					if x, ok := solarFields(ssa.Value(fn.Params[0]), [6]int64{2022, 5, 17, h0, 33, 44}, fr, v); ok {
						return x, true
					}
					if rc, f, ok := getterField(c, v); ok {
						if o, ok := evalWith(fr, rc, leaf); ok {
							if st, isS := o.(absStep); isS {
								switch f {
								case "Solar.year":
									return int64(9000), true
								case "Solar.month":
									return int64(9), true
								case "Solar.day":
									return st.k, true // the marker: by how many days the date was moved
								case "Solar.minute":
									return int64(33), true
								case "Solar.second":
									return int64(44), true
								}
							}
						}
					}
					call, ok := v.(*ssa.Call)
					if !ok || call.Common().StaticCallee() == nil {
						return nil, false
					}
					switch fname(call.Common().StaticCallee()) {
					case "calendar.(*Solar).NextDay":
						if _, o := fr.origin(call.Common().Args[0]); o == ssa.Value(fn.Params[0]) {
							if d, ok := evalWith(fr, call.Common().Args[1], leaf); ok {
								if di, isI := d.(int64); isI {
									return absStep{absDate{2022, 5, 17}, di}, true
								}
							}
						}
					case "calendar.NewSolar":
						var a []int64
						for _, x := range call.Common().Args {
							o, ok := evalWith(fr, x, leaf)
							ki, isI := o.(int64)
							if !ok || !isI {
								return nil, false
							}
							a = append(a, ki)
						}
						if len(a) == 6 {
							return absSolar{a[0], a[1], a[2], a[3], a[4], a[5]}, true
						}
					}
					return nil, false
				}
				ev := &evaluator{inline: inlineLibrary, leaf: leaf}
				// the time of day may also be set on the object NextDay handed back
				set := map[string]interface{}{}
				ev.onStore = func(fr *evalFrame, st *ssa.Store, v interface{}, ok bool) {
					if fa, isF := st.Addr.(*ssa.FieldAddr); isF && structName(fa.X.Type()) == "Solar" {
						if o, okO := evalWith(fr, fa.X, leaf); okO {
							if _, isS := o.(absStep); isS {
								if !ok {
									v = "?"
								}
								set[fieldKeyOf(fa)] = v
							}
						}
					}
				}
				res, outcome := ev.run(fn, nil, nil, nil, nil)
				if outcome == "return" && len(res) == 1 {
					if st, isS := res[0].(absStep); isS {
						got := []interface{}{int64(9000), int64(9), st.k, h0, int64(33), int64(44)}
						for i, f := range []string{"Solar.year", "Solar.month", "Solar.day", "Solar.hour", "Solar.minute", "Solar.second"} {
							if v, stored := set[f]; stored {
								got[i] = v
							}
						}
						as := absSolar{}
						vals := []*int64{&as.y, &as.m, &as.d, &as.h, &as.mi, &as.s}
						all := true
						for i, g := range got {
							k, isI := g.(int64)
							if !isI {
								all = false
								break
							}
							*vals[i] = k
						}
						if all {
							res[0] = as
						}
					}
				}
				n++
				t := h0 + k
				days := t / 24
				hour := t % 24
				if hour < 0 {
					hour += 24
					days--
				}
				want := absSolar{9000, 9, days, hour, 33, 44}
				if outcome != "return" || len(res) != 1 {
					bad = append(bad, "not followed: "+outcome+" "+ev.fail)
				} else if res[0] != interface{}(want) {
					bad = append(bad, fmt.Sprintf("hour %d moved by %d hours: %v, expected the date moved by %d days and hour %d", h0, k, res[0], days, hour))
				}
			}
		}
		sort.Strings(bad)
		r.check(len(bad) == 0 && n == 24*121, rule, "calendar.(*Solar).NextHour moves the date by whole days and wraps the hour", c.fnPos(fn), fmt.Sprintf("%d cases; deviations: %v", n, headList(dedupe(bad), 3)))
	}
	g, h := c.Fn(r, rule, "SolarUtil.GetJulianDay"), c.Fn(r, rule, "calendar.NewSolarFromJulianDay")
	if g != nil && len(g.Params) == 6 {
		// the returned expression as an affine form with exact rational coefficients over the parameters
		// (E11b; helpers inline, truncations and merges are atoms)
		var forms []string
		okk, n := true, 0
		for _, ret := range returnsIn(g, nil) {
			if len(ret.Results) != 1 {
				continue
			}
			n++
			f := ratAffineOf(&evalFrame{fn: g}, ret.Results[0], 0)
			got := []string{ratCoefString(f, g.Params[2].Name()), ratCoefString(f, g.Params[3].Name()), ratCoefString(f, g.Params[4].Name()), ratCoefString(f, g.Params[5].Name())}
			forms = append(forms, fmt.Sprintf("day %s, hour %s, minute %s, second %s", got[0], got[1], got[2], got[3]))
			if !equalStrs(got, []string{"1", "1/24", "1/1440", "1/86400"}) {
				okk = false
			}
		}
		r.check(okk && n > 0, rule, "SolarUtil.GetJulianDay adds the time of day as hour/24 + minute/1440 + second/86400 of a day", c.fnPos(g), "coefficients of the returned expression: "+strings.Join(forms, "; "))
	}
	_ = h // (how NewSolarFromJulianDay splits the fraction is followed from the number itself: R04.9)
	r.floor(rule, 3)
}

// ---------- R04.6 mirror symmetry of the day difference ----------

// symExpr renders the expression tree of v with parameters renamed; loop-carried
// phis are bound as µ-variables so that structurally equal loops print equally.
func symExpr(c *Ctx, v ssa.Value, rename map[string]string, bound map[ssa.Value]string, depth int) string {
	if depth > 40 {
		return "…"
	}
	if n, ok := bound[v]; ok {
		return n
	}
	switch x := v.(type) {
	case *ssa.Const:
		if x.Value == nil {
			return "nil"
		}
		return x.Value.String()
	case *ssa.Parameter:
		if n, ok := rename[x.Name()]; ok {
			return n
		}
		return x.Name()
	case *ssa.BinOp:
		l, rr := symExpr(c, x.X, rename, bound, depth+1), symExpr(c, x.Y, rename, bound, depth+1)
		if x.Op == token.ADD || x.Op == token.MUL {
			if l > rr {
				l, rr = rr, l
			}
		}
		return "(" + l + " " + x.Op.String() + " " + rr + ")"
	case *ssa.UnOp:
		if x.Op == token.MUL {
			if fa, ok := x.X.(*ssa.FieldAddr); ok {
				return symExpr(c, fa.X, rename, bound, depth+1) + "." + strings.SplitN(fieldKeyOf(fa), ".", 2)[1]
			}
			if g, ok := x.X.(*ssa.Global); ok {
				return gname(g)
			}
		}
		return x.Op.String() + symExpr(c, x.X, rename, bound, depth+1)
	case *ssa.Call:
		name := "call"
		if callee := x.Common().StaticCallee(); callee != nil {
			name = fname(callee)
		}
		var args []string
		for _, a := range x.Common().Args {
			args = append(args, symExpr(c, a, rename, bound, depth+1))
		}
		return name + "(" + strings.Join(args, ",") + ")"
	case *ssa.Slice:
		part := func(v ssa.Value) string {
			if v == nil {
				return ""
			}
			return symExpr(c, v, rename, bound, depth+1)
		}
		return symExpr(c, x.X, rename, bound, depth+1) + "[" + part(x.Low) + ":" + part(x.High) + "]"
	case *ssa.Phi:
		// a merge of two values selected by one branch condition
		header := false
		for _, p := range x.Block().Preds {
			if x.Block().Dominates(p) {
				header = true
			}
		}
		if cond, edge0True, ok := phiSelector(x); ok && !header {
			t, f := x.Edges[0], x.Edges[1]
			if !edge0True {
				t, f = f, t
			}
			return "(" + symExpr(c, cond, rename, bound, depth+1) + " ? " + symExpr(c, t, rename, bound, depth+1) + " : " + symExpr(c, f, rename, bound, depth+1) + ")"
		}
		n := fmt.Sprintf("µ%d", len(bound))
		nb := map[ssa.Value]string{}
		for k, val := range bound {
			nb[k] = val
		}
		nb[x] = n
		var parts []string
		for _, e := range x.Edges {
			parts = append(parts, symExpr(c, e, rename, nb, depth+1))
		}
		// loop condition(s) that control the phi
		var conds []string
		for _, b := range controlRegion(x.Block()) {
			if iff, ok := b.Instrs[len(b.Instrs)-1].(*ssa.If); ok && b != x.Block().Idom() {
				conds = append(conds, symExpr(c, iff.Cond, rename, nb, depth+1))
			}
		}
		if iff, ok := x.Block().Instrs[len(x.Block().Instrs)-1].(*ssa.If); ok {
			conds = append(conds, symExpr(c, iff.Cond, rename, nb, depth+1))
		}
		sort.Strings(conds)
		return n + ".phi[" + strings.Join(parts, " | ") + " while " + strings.Join(conds, "&") + "]"
	case *ssa.Convert:
		return symExpr(c, x.X, rename, bound, depth+1)
	case *ssa.TypeAssert:
		return "assert(" + symExpr(c, x.X, rename, bound, depth+1) + ")"
	case *ssa.MakeInterface:
		return symExpr(c, x.X, rename, bound, depth+1)
	}
	return v.Name()
}

func r04_6(c *Ctx, r *Report) {
	const rule = "R04.6"
	r.rule(rule, "The day difference is antisymmetric by construction. In GetDaysBetween the arm for a later first date (ay > by) must be the negation of the arm for an earlier first date with the roles of (ay,am,ad) and (by,bm,bd) exchanged: the two arms are compared as symbolic expression trees (calls, loops as bound phis) under that renaming. A slip in one arm only (wrong year in one call) breaks Subtract(a,b) == -Subtract(b,a).")
	fn := c.Fn(r, rule, "SolarUtil.GetDaysBetween")
	if fn == nil {
		return
	}
	// the result arms: every returned value, with merge phis (not loop headers) expanded
	construct := "SolarUtil.GetDaysBetween arms are mirror images"
	arms := resultArms(fn)
	if len(arms) != 3 {
		r.bad(rule, construct, c.fnPos(fn), fmt.Sprintf("the result has %d arms, not the three (same year / first later / first earlier) (undecided = fail)", len(arms)))
		return
	}
	var neg, pos, same ssa.Value
	for _, e := range arms {
		if u, ok := e.(*ssa.UnOp); ok && u.Op == token.SUB {
			neg = u.X
		} else if bo, ok := e.(*ssa.BinOp); ok && bo.Op == token.SUB {
			same = e
		} else {
			pos = e
		}
	}
	if neg == nil || pos == nil || same == nil {
		r.bad(rule, construct, c.fnPos(fn), "could not identify the negated arm, the positive arm and the same-year arm (undecided = fail)")
		return
	}
	swap := map[string]string{"ay": "by", "am": "bm", "ad": "bd", "by": "ay", "bm": "am", "bd": "ad"}
	a := symExpr(c, neg, swap, map[ssa.Value]string{}, 0)
	b := symExpr(c, pos, map[string]string{}, map[ssa.Value]string{}, 0)
	short := func(s string) string { return strings.ReplaceAll(s, "SolarUtil.", "") }
	if a == b {
		r.ok(rule, construct, c.fnPos(fn), "negated arm with a and b exchanged equals the positive arm: "+short(b))
	} else {
		r.bad(rule, construct, c.pos(neg.Pos()), "the arm for ay > by (with a and b exchanged) is "+short(a)+" but the arm for ay < by is "+short(b)+": Subtract is not antisymmetric across years of different length")
	}
	// same-year arm: DIY(b) - DIY(a)
	s := symExpr(c, same, map[string]string{}, map[ssa.Value]string{}, 0)
	want := "(SolarUtil.GetDaysInYear(by,bm,bd) - SolarUtil.GetDaysInYear(ay,am,ad))"
	r.check(s == want, rule, "SolarUtil.GetDaysBetween same-year arm", c.fnPos(fn), "same-year arm is "+short(s))
}

// resultArms lists the values a function can return: the operands of its Return instructions
// with merge phis expanded (a phi at a loop header is an arm of its own).
func resultArms(fn *ssa.Function) []ssa.Value {
	var out []ssa.Value
	seen := map[ssa.Value]bool{}
	var add func(v ssa.Value, depth int)
	add = func(v ssa.Value, depth int) {
		if seen[v] {
			return
		}
		seen[v] = true
		if phi, ok := v.(*ssa.Phi); ok && depth < 8 {
			header := false
			for _, p := range phi.Block().Preds {
				if phi.Block().Dominates(p) {
					header = true
				}
			}
			if !header {
				for _, e := range phi.Edges {
					add(e, depth+1)
				}
				return
			}
		}
		out = append(out, v)
	}
	for _, b := range fn.Blocks {
		for _, ins := range b.Instrs {
			if ret, ok := ins.(*ssa.Return); ok && len(ret.Results) == 1 {
				add(ret.Results[0], 0)
			}
		}
	}
	return out
}
