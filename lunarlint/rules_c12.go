package main

// C12 — fortune periods chain contiguously and match pillars and calendar years.

import (
	"fmt"
	"go/token"
	"sort"
	"strings"

	"golang.org/x/tools/go/ssa"
)

func init() {
	register("C12",
		"that the start offset is measured from the right Jie instant and converted without rounding loss (numeric); that ages/years line up with the birth year beyond the affine relations checked here (AX-AGE).",
		r12_1, r12_2, r12_3, r12_4, r12_5, r12_6, r12_7, r12_8, r03_3, r07_5)
}

// evalBoolOnPath evaluates a boolean SSA value along a path given truth values for atoms.
func evalBoolOnPath(p *cfgPath, v ssa.Value, atom func(ssa.Value) (bool, bool), depth int) (bool, bool) {
	if depth > 10 {
		return false, false
	}
	v = p.resolve(v)
	if b, ok := constBool(v); ok {
		return b, true
	}
	if b, ok := atom(v); ok {
		return b, true
	}
	if u, ok := v.(*ssa.UnOp); ok && u.Op == token.NOT {
		b, ok := evalBoolOnPath(p, u.X, atom, depth+1)
		return !b, ok
	}
	return false, false
}

func r12_1(c *Ctx, r *Report) {
	const rule = "R12.1"
	r.rule(rule, "Direction. forward <=> (yang == man), where yang <=> the exact year stem index is even and man <=> gender == 1 (the value stored into the direction field is followed by the evaluator for all ten stems and both genders); the start offset runs to the next Jie when forward and from the previous Jie otherwise.")
	fn := c.Fn(r, rule, "calendar.NewYun")
	if fn == nil {
		return
	}
	// the field IsForward returns, whatever it is called
	fwdField := ""
	if g := c.Fn(r, rule, "calendar.(*Yun).IsForward"); g != nil {
		for _, b := range g.Blocks {
			for _, ins := range b.Instrs {
				if ret, ok := ins.(*ssa.Return); ok && len(ret.Results) == 1 {
					if _, f, ok := getterField(c, ret.Results[0]); ok {
						fwdField = f
					}
				}
			}
		}
	}
	var store *ssa.Store
	for _, b := range fn.Blocks {
		for _, ins := range b.Instrs {
			if st, ok := ins.(*ssa.Store); ok {
				if fa, ok := st.Addr.(*ssa.FieldAddr); ok && fieldKeyOf(fa) == fwdField {
					store = st
				}
			}
		}
	}
	construct := "calendar.NewYun: forward <=> (yang == man)"
	if store == nil || len(fn.Params) != 3 {
		r.bad(rule, construct, c.fnPos(fn), "the store of the direction (the field IsForward returns) was not found in NewYun (undecided = fail)")
	} else {
		// decision table: exact year stem index 0..9 x gender {0, 1}; the stored direction is followed by the evaluator
		var bad []string
		n := 0
		for g := int64(0); g < 10; g++ {
			for _, gender := range []int64{0, 1} {
				leaf := func(fr *evalFrame, v ssa.Value) (interface{}, bool) {
					if fr.parent == nil && v == ssa.Value(fn.Params[1]) {
						return gender, true
					}
					if call, ok := v.(*ssa.Call); ok && call.Common().StaticCallee() != nil && fname(call.Common().StaticCallee()) == "calendar.(*Lunar).GetYearGanIndexExact" {
						return g, true
					}
					return nil, false
				}
				ev := &evaluator{inline: inlineLibrary, leaf: leaf}
				fr := &evalFrame{fn: fn, phiFrom: map[*ssa.BasicBlock]*ssa.BasicBlock{}}
				var outcome string
				if store.Block() != fn.Blocks[0] {
					_, outcome = ev.runFrame(fr, nil, func(b *ssa.BasicBlock) bool { return b == store.Block() })
				} else {
					outcome = fmt.Sprintf("stop:%d", store.Block().Index)
				}
				n++
				if outcome != fmt.Sprintf("stop:%d", store.Block().Index) {
					bad = append(bad, "the constructor could not be followed up to the store: "+outcome+" "+ev.fail)
					continue
				}
				got, ok := ev.eval(fr, store.Val, 0)
				want := (g%2 == 0) == (gender == 1)
				if !ok || got != interface{}(want) {
					bad = append(bad, fmt.Sprintf("year stem %d, gender %d gives forward=%v, expected %v", g, gender, got, want))
				}
			}
		}
		r.check(len(bad) == 0 && n == 20, rule, construct, c.pos(store.Pos()), fmt.Sprintf("%d cases (year stem x gender) evaluated; deviations: %v", n, headList(bad, 3)))
	}
	// start/end selection in computeStart
	cs := c.Fn(r, rule, "calendar.(*Yun).computeStart")
	if cs == nil {
		return
	}
	sel := map[string]string{}
	for _, b := range cs.Blocks {
		for _, ins := range b.Instrs {
			phi, ok := ins.(*ssa.Phi)
			if !ok || len(phi.Edges) != 2 {
				continue
			}
			// which end of the measured interval the merged moment is: the receiver of Subtract/SubtractMinute is the end, its argument the start
			// (directly, or in an unexported worker the moment is handed to)
			var roleOf func(v ssa.Value, depth int) string
			roleOf = func(v ssa.Value, depth int) string {
				if v.Referrers() == nil || depth > 2 {
					return ""
				}
				for _, ref := range *v.Referrers() {
					call, ok := ref.(*ssa.Call)
					if !ok || call.Common().StaticCallee() == nil {
						continue
					}
					callee := call.Common().StaticCallee()
					if strings.HasPrefix(callee.Name(), "Subtract") && recvIsNamed(callee, "Solar") && len(call.Common().Args) == 2 {
						if call.Common().Args[0] == v {
							return "end"
						} else if call.Common().Args[1] == v {
							return "start"
						}
					}
					if isLocalHelper(callee) {
						for i, a := range call.Common().Args {
							if a == v && i < len(callee.Params) {
								if rl := roleOf(callee.Params[i], depth+1); rl != "" {
									return rl
								}
							}
						}
					}
				}
				return ""
			}
			role := roleOf(phi, 0)
			if role == "" {
				continue
			}
			cond, e0true, ok := phiSelector(phi)
			if !ok {
				continue
			}
			pol := true
			if u, ok := cond.(*ssa.UnOp); ok && u.Op == token.NOT {
				cond, pol = u.X, false
			}
			if _, f, ok := getterField(c, cond); !ok || f != fwdField {
				continue
			}
			for i, e := range phi.Edges {
				call, ok := e.(*ssa.Call)
				if !ok || call.Common().StaticCallee() == nil || call.Common().StaticCallee().Name() != "GetSolar" {
					continue
				}
				inner, ok := call.Common().Args[0].(*ssa.Call)
				if !ok || inner.Common().StaticCallee() == nil {
					continue // the birth moment itself (lunar.GetSolar()): the other end of the interval
				}
				src := inner.Common().StaticCallee().Name()
				if src != "GetNextJie" && src != "GetPrevJie" {
					continue
				}
				whenForward := (i == 0) == e0true
				if !pol {
					whenForward = !whenForward
				}
				sel[role] = fmt.Sprintf("%s when forward=%v", src, whenForward)
			}
		}
	}
	r.check(sel["start"] == "GetPrevJie when forward=false" && sel["end"] == "GetNextJie when forward=true", rule, "calendar.(*Yun).computeStart measures to the next Jie when forward, from the previous Jie otherwise", c.fnPos(cs), fmt.Sprintf("start: %s; end: %s", sel["start"], sel["end"]))
}

func r12_2(c *Ctx, r *Report) {
	const rule = "R12.2"
	r.rule(rule, "Conversion of the distance to the Jie into the start offset, as decision tables (computeStart followed by the evaluator, helpers inline, the stored fields read from its field memory). School 2: for M minutes between the two moments (every M up to 9000 and a spread beyond), years = M/4320, months = (M%4320)/360, days = (M%360)/12, hours = (M%12)*2 — three days per year at minute resolution. School 1: with D the day difference and the two-hour slots of both moments (0..11; 23:xx counted as slot 11 at both ends), the slot difference borrows a day when negative, a day is four months, a slot ten days: months = 4D + slots*10/30, days = slots*10 - 30*(slots*10/30), years = months/12, months %= 12, hours = 0 — for both directions, all 24 x 24 hour pairs and a spread of D. The start and end are the previous Jie and the birth moment (backward) or the birth moment and the next Jie (forward). At the stores startMonth is in [0,11], startDay in [0,29], startHour in [0,23] (interval analysis, under AX-DATEDIFF).")
	fn := c.Fn(r, rule, "calendar.(*Yun).computeStart")
	if fn == nil {
		return
	}
	if len(fn.Params) == 2 {
		r12_2_tables(c, r, rule, fn)
	} else {
		r.bad(rule, "calendar.(*Yun).computeStart conversion", c.fnPos(fn), "unexpected signature (undecided = fail)")
	}
	e := c.ranges()
	for _, f := range []struct {
		key    string
		lo, hi int64
	}{{"Yun.startMonth", 0, 11}, {"Yun.startDay", 0, 29}, {"Yun.startHour", 0, 23}} {
		v := e.fieldInv[f.key].orBot()
		okv := !v.bot && v.known() && v.lo() >= f.lo && v.hi() <= f.hi
		o := r.check(okv, rule, fmt.Sprintf("field %s in [%d,%d]", f.key, f.lo, f.hi), c.fnPos(fn), "invariant at the exit of computeStart: "+v.String())
		_ = o
		for _, a := range axList(v.ax) {
			r.assume(axText(a))
		}
	}
}

func r12_3(c *Ctx, r *Report) {
	const rule = "R12.3"
	r.rule(rule, "Chain arithmetic. NewDaYun (for periods 0, 1, 2, 3, 9) and Yun.GetDaYunBy (the four periods it lists) are followed by the evaluator with the civil birth year, the lunar year of the birth date and the year the fortunes start as three different numbers: for index >= 1: startYear = Y + 10*(index-1), endYear = startYear + 9, startAge = startYear - birthYear + 1, endAge = startAge + 9 (hence end(i)+1 = start(i+1)); for index 0: startYear = birthYear, startAge = 1, endYear = Y - 1, endAge = Y - birthYear. LiuNian and XiaoYun year/age are the period's start year/age plus the index (affine forms).")
	daYunChain(c, r, rule)
	for _, t := range []string{"calendar.NewLiuNian", "calendar.NewXiaoYun"} {
		f := c.Fn(r, rule, t)
		if f == nil {
			continue
		}
		got := map[string]string{}
		for _, b := range f.Blocks {
			for _, ins := range b.Instrs {
				st, ok := ins.(*ssa.Store)
				if !ok {
					continue
				}
				fa, ok := st.Addr.(*ssa.FieldAddr)
				if !ok || !isIntType(st.Val.Type()) {
					continue
				}
				got[strings.SplitN(fieldKeyOf(fa), ".", 2)[1]] = affineOf(c, f, st.Val, 0).String()
			}
		}
		r.check(got["year"] == "+1*p0.startYear +1*param:index +0" && got["age"] == "+1*p0.startAge +1*param:index +0", rule, t+": year/age = period start + index", c.fnPos(f), fmt.Sprintf("year = %s; age = %s", got["year"], got["age"]))
	}
}

// daYunForm: affine form over B (birth year), Y (start year) and index.
func daYunForm(c *Ctx, fn *ssa.Function, v ssa.Value, names map[ssa.Value]string, depth int) string {
	var aff func(v ssa.Value, d int) affineForm
	aff = func(v ssa.Value, d int) affineForm {
		if d > 12 {
			return affineForm{}
		}
		if n, ok := names[v]; ok {
			return affineForm{coef: map[string]int64{n: 1}, ok: true}
		}
		if k, ok := constInt(v); ok {
			return affineForm{coef: map[string]int64{}, k: k, ok: true}
		}
		switch x := v.(type) {
		case *ssa.Parameter:
			return affineForm{coef: map[string]int64{x.Name(): 1}, ok: true}
		case *ssa.BinOp:
			switch x.Op {
			case token.ADD:
				return affAdd(aff(x.X, d+1), aff(x.Y, d+1), 1)
			case token.SUB:
				return affAdd(aff(x.X, d+1), aff(x.Y, d+1), -1)
			case token.MUL:
				l, rr := aff(x.X, d+1), aff(x.Y, d+1)
				if l.ok && rr.ok && len(nonZero(rr.coef)) == 0 {
					out := affineForm{coef: map[string]int64{}, k: l.k * rr.k, ok: true}
					for s, cv := range l.coef {
						out.coef[s] = cv * rr.k
					}
					return out
				}
			}
		case *ssa.UnOp:
			if x.Op == token.MUL {
				// a field of the object under construction: forward the stored value
				if fa, ok := x.X.(*ssa.FieldAddr); ok {
					for _, ref := range *fa.X.Referrers() {
						if fa2, ok := ref.(*ssa.FieldAddr); ok && fa2.Field == fa.Field {
							for _, r2 := range *fa2.Referrers() {
								if st, ok := r2.(*ssa.Store); ok && st.Block().Dominates(x.Block()) && (st.Block() != x.Block() || true) {
									return aff(st.Val, d+1)
								}
							}
						}
					}
				}
			}
		}
		return affineForm{}
	}
	f := aff(v, 0)
	if !f.ok {
		return "non-affine"
	}
	var ks []string
	for k := range f.coef {
		if f.coef[k] != 0 {
			ks = append(ks, k)
		}
	}
	sort.Strings(ks)
	var parts []string
	for _, k := range ks {
		parts = append(parts, fmt.Sprintf("%+d*%s", f.coef[k], k))
	}
	if f.k != 0 || len(parts) == 0 {
		parts = append(parts, fmt.Sprintf("%+d", f.k))
	}
	return strings.Join(parts, " ")
}

func r12_4(c *Ctx, r *Report) {
	const rule = "R12.4"
	r.rule(rule, "Pillar stepping, by evaluation (E12; helpers, sibling accessors and the cycle-position search inline, search loops as tables over the iteration number; the pillar accessors of the birth Lunar are inputs). Great fortunes: the pillar index+k places after (forward) or before (backward) the exact month pillar, for every month pillar, index 0..12 and both directions (index 0 has no pillar). Minor fortunes: from the hour pillar by index+1 places, plus start age-1 when the period is not the one before the first fortune. Annual fortunes: from the exact year pillar of the Lichun of the birth year (not the birth Lunar's own) forward by index, plus start age-1 likewise. Monthly fortunes: stem by the five-tigers rule from the annual pillar's stem ({甲己:丙, 乙庚:戊, 丙辛:庚, 丁壬:壬, 戊癸:甲} for the first month), branch from 寅, for all sixty annual pillars and index 0..11.")
	v := c.vocab(r, rule)
	if v == nil {
		return
	}
	type input struct {
		pillar      int   // the pillar the stepping starts from
		index       int64 // the object's own index
		forward     bool
		period, age int64 // the enclosing great fortune's index and start age
	}
	run := func(fn *ssa.Function, in input) (interface{}, string) {
		recv := ssa.Value(fn.Params[0])
		var leaf leafX
		leaf = func(fr *evalFrame, x ssa.Value) (interface{}, bool) {
			if rc, f, ok := getterField(c, x); ok {
				_, o := fr.origin(rc)
				own := o == recv
				switch strings.SplitN(f, ".", 2)[1] {
				case "index":
					if own {
						return in.index, true
					}
					if strings.HasPrefix(f, "DaYun.") {
						return in.period, true
					}
				case "startAge":
					if strings.HasPrefix(f, "DaYun.") && !own {
						return in.age, true
					}
				case "forward":
					return in.forward, true
				case "lunar", "yun", "daYun", "liuNian":
					return absPtr{strings.SplitN(f, ".", 2)[1], false}, true
				}
				if _, isCall := x.(*ssa.Call); !isCall {
					return nil, false
				}
			}
			if lk, ok := x.(*ssa.Lookup); ok && !lk.CommaOk {
				if k, isK := constString(lk.Index); isK {
					if m, ok := evalWith(fr, lk.X, leaf); ok {
						if p, isP := m.(absPtr); isP && p.tag == "term table" {
							return absPtr{"moment of " + k, false}, true
						}
					}
				}
				return nil, false
			}
			call, ok := x.(*ssa.Call)
			if !ok || call.Common().StaticCallee() == nil || len(call.Common().Args) == 0 {
				return nil, false
			}
			callee := call.Common().StaticCallee()
			if callee.Signature.Recv() == nil {
				return nil, false
			}
			rt := structName(callee.Signature.Recv().Type())
			if rt != "Lunar" && rt != "Solar" && rt != "JieQi" && rt != "LiuNian" {
				return nil, false
			}
			rv, ok := evalWith(fr, call.Common().Args[0], leaf)
			who, isP := rv.(absPtr)
			if !ok || !isP {
				return nil, false
			}
			switch {
			case rt == "LiuNian" && callee.Name() == "GetGanZhi" && who.tag == "liuNian":
				return v.jiaZi[in.pillar], true
			case rt == "LiuNian":
				return nil, false
			case callee.Name() == "GetJieQiTable":
				return absPtr{"term table", false}, true
			case callee.Name() == "GetLunar" || callee.Name() == "GetSolar":
				return absPtr{"lunar of " + strings.TrimPrefix(who.tag, "moment of "), false}, true
			}
			if m := pillarAccessor.FindStringSubmatch(callee.Name()); m != nil && m[2] == "InGanZhi" && m[3] == "" {
				// the one pillar each kind of fortune starts from; any other pillar of any other Lunar is seven places off
				want := map[string]string{"DaYun": "Month:Exact@lunar", "XiaoYun": "Time:@lunar", "LiuNian": "Year:Exact@lunar of 立春"}[structName(fn.Signature.Recv().Type())]
				if m[1]+":"+m[4]+"@"+who.tag == want {
					return v.jiaZi[in.pillar], true
				}
				return v.jiaZi[(in.pillar+7)%60], true
			}
			return nil, false
		}
		ev := &evaluator{inline: inlineLibrary, leaf: leaf}
		res, outcome := ev.run(fn, nil, nil, nil, nil)
		if outcome != "return" || len(res) != 1 {
			return nil, outcome + " " + ev.fail
		}
		return res[0], ""
	}
	mod60 := func(k int64) int { return int(((k % 60) + 60) % 60) }
	type spec struct {
		fn     string
		what   string
		inputs func(yield func(in input, want string))
	}
	specs := []spec{
		{"calendar.(*DaYun).GetGanZhi", "steps from the exact month pillar by its index in the fortune direction", func(yield func(in input, want string)) {
			for p := 0; p < 60; p++ {
				for i := int64(0); i <= 12; i++ {
					for _, fw := range []bool{true, false} {
						want := ""
						if i >= 1 {
							d := i
							if !fw {
								d = -i
							}
							want = v.jiaZi[mod60(int64(p)+d)]
						}
						yield(input{pillar: p, index: i, forward: fw}, want)
					}
				}
			}
		}},
		{"calendar.(*XiaoYun).GetGanZhi", "steps from the hour pillar by index+1 (+ start age-1 inside a great fortune) in the fortune direction", func(yield func(in input, want string)) {
			for p := 0; p < 60; p++ {
				for i := int64(0); i <= 9; i++ {
					for _, fw := range []bool{true, false} {
						for _, pa := range [][2]int64{{0, 1}, {1, 4}, {3, 27}, {9, 88}} {
							add := i + 1
							if pa[0] > 0 {
								add += pa[1] - 1
							}
							if !fw {
								add = -add
							}
							yield(input{pillar: p, index: i, forward: fw, period: pa[0], age: pa[1]}, v.jiaZi[mod60(int64(p)+add)])
						}
					}
				}
			}
		}},
		{"calendar.(*LiuNian).GetGanZhi", "steps forward from the exact year pillar of the birth year's Lichun by index (+ start age-1 inside a great fortune)", func(yield func(in input, want string)) {
			for p := 0; p < 60; p++ {
				for i := int64(0); i <= 9; i++ {
					for _, pa := range [][2]int64{{0, 1}, {1, 4}, {3, 27}, {9, 88}} {
						add := i
						if pa[0] > 0 {
							add += pa[1] - 1
						}
						yield(input{pillar: p, index: i, period: pa[0], age: pa[1]}, v.jiaZi[mod60(int64(p)+add)])
					}
				}
			}
		}},
		{"calendar.(*LiuYue).GetGanZhi", "follows the five-tigers rule from the annual pillar's stem, branches from 寅", func(yield func(in input, want string)) {
			for p := 0; p < 60; p++ {
				for i := int64(0); i <= 11; i++ {
					first := ((p%10)%5*2 + 2) % 10 // stem of the first month: 甲己 -> 丙
					yield(input{pillar: p, index: i}, v.stems[(first+int(i))%10]+v.branches[(2+int(i))%12])
				}
			}
		}},
	}
	for _, sp := range specs {
		fn := c.Fn(r, rule, sp.fn)
		if fn == nil || len(fn.Params) != 1 {
			continue
		}
		var bad []string
		n := 0
		sp.inputs(func(in input, want string) {
			n++
			if len(bad) > 3 {
				return
			}
			got, problem := run(fn, in)
			if problem != "" {
				bad = append(bad, "not followed: "+problem)
				return
			}
			if got != interface{}(want) {
				bad = append(bad, fmt.Sprintf("from %s, index %d, forward %v, period %d starting at age %d: %v, expected %q", v.jiaZi[in.pillar], in.index, in.forward, in.period, in.age, got, want))
			}
		})
		r.check(len(bad) == 0 && n > 0, rule, sp.fn+" "+sp.what, c.fnPos(fn), fmt.Sprintf("%d cases; deviations: %v", n, headList(dedupe(bad), 3)))
	}
	r.floor(rule, 4)
}

func r12_5(c *Ctx, r *Report) {
	const rule = "R12.5"
	r.rule(rule, "Inputs of the fortune chart. NewYun reads the exact year stem (not the New-Year or Lichun-day one); great fortunes the exact month pillar; minor fortunes the hour pillar; annual fortunes the exact year pillar of the Lichun of the birth year — as declared in spec/inputs.json.")
	declaredInputsRule(c, r, rule, func(ai accessorInputs) bool {
		switch ai.cls.typ {
		case "Yun", "DaYun", "LiuNian", "LiuYue", "XiaoYun":
			return true
		}
		return fname(ai.fn) == "calendar.NewYun" || strings.HasPrefix(ai.fn.Name(), "GetYun")
	}, 30)
}

func r12_6(c *Ctx, r *Report) {
	tableIndexRule(c, r, "R12.6", func(fn *ssa.Function) bool {
		if fn.Signature.Recv() == nil {
			return false
		}
		switch structName(fn.Signature.Recv().Type()) {
		case "Yun", "DaYun", "LiuNian", "LiuYue", "XiaoYun":
			return true
		}
		return false
	}, 5)
}

// R12.7: the two ends of the start-offset interval get their two-hour slot the same way.
func r12_7(c *Ctx, r *Report) {
	const rule = "R12.7"
	r.rule(rule, "School 1 measures the hour part of the start offset as a difference of two-hour slots. In Yun.computeStart the slot of the interval's end and the slot of its start are the two operands of one subtraction; as symbolic expression trees (calls, guards as phis) they must be the same function of their own moment — in particular both or neither carry the 23:00 special case. A slot computed differently at one end shifts every offset whose start or end falls in that hour.")
	fn := c.Fn(r, rule, "calendar.(*Yun).computeStart")
	if fn == nil {
		return
	}
	var callsSlot func(f *ssa.Function, depth int) bool
	callsSlot = func(f *ssa.Function, depth int) bool {
		if fname(f) == "LunarUtil.GetTimeZhiIndex" {
			return true
		}
		if depth > 2 || f.Pkg == nil || !strings.HasPrefix(f.Pkg.Pkg.Path(), c.ModPath) {
			return false
		}
		for _, b := range f.Blocks {
			for _, ins := range b.Instrs {
				if call, ok := ins.(*ssa.Call); ok && call.Common().StaticCallee() != nil && callsSlot(call.Common().StaticCallee(), depth+1) {
					return true
				}
			}
		}
		return false
	}
	// a slot computation: GetTimeZhiIndex itself or an unexported helper around it taking the moment
	isSlotCall := func(v ssa.Value) bool {
		call, ok := v.(*ssa.Call)
		if !ok || call.Common().StaticCallee() == nil {
			return false
		}
		callee := call.Common().StaticCallee()
		if fname(callee) == "LunarUtil.GetTimeZhiIndex" {
			return true
		}
		return len(call.Common().Args) == 1 && structName(call.Common().Args[0].Type()) == "Solar" && isIntType(call.Type()) && callsSlot(callee, 0)
	}
	var findMoment func(v ssa.Value, depth int) ssa.Value
	findMoment = func(v ssa.Value, depth int) ssa.Value {
		if depth > 6 || v == nil {
			return nil
		}
		switch x := v.(type) {
		case *ssa.Call:
			if callee := x.Common().StaticCallee(); callee != nil && (callee.Name() == "ToYmdHms" || callee.Name() == "GetHour" || callee.Name() == "GetMinute") && len(x.Common().Args) == 1 {
				return x.Common().Args[0]
			}
			if isSlotCall(x) && len(x.Common().Args) == 1 && structName(x.Common().Args[0].Type()) == "Solar" {
				return x.Common().Args[0]
			}
			for _, a := range x.Common().Args {
				if m := findMoment(a, depth+1); m != nil {
					return m
				}
			}
		case *ssa.Phi:
			for _, e := range x.Edges {
				if m := findMoment(e, depth+1); m != nil {
					return m
				}
			}
		case *ssa.Slice:
			return findMoment(x.X, depth+1)
		case *ssa.BinOp:
			if m := findMoment(x.X, depth+1); m != nil {
				return m
			}
			return findMoment(x.Y, depth+1)
		}
		return nil
	}
	n := 0
	var blocks []*ssa.BasicBlock
	for _, f := range withHelpers(c, fn) {
		blocks = append(blocks, f.Blocks...) // the subtraction may sit in an unexported worker of computeStart
	}
	for _, b := range blocks {
		for _, ins := range b.Instrs {
			bo, ok := ins.(*ssa.BinOp)
			if !ok || bo.Op != token.SUB || !isIntType(bo.Type()) {
				continue
			}
			if !treeContains(bo.X, isSlotCall, 0) || !treeContains(bo.Y, isSlotCall, 0) {
				continue
			}
			n++
			me, ms := findMoment(bo.X, 0), findMoment(bo.Y, 0)
			construct := "calendar.(*Yun).computeStart: slot(end) - slot(start)"
			if me == nil || ms == nil || me == ms {
				r.bad(rule, construct, c.pos(bo.Pos()), "the moments whose slots are subtracted could not be identified (undecided = fail)")
				continue
			}
			a := symExpr(c, bo.X, nil, map[ssa.Value]string{me: "@"}, 0)
			bb := symExpr(c, bo.Y, nil, map[ssa.Value]string{ms: "@"}, 0)
			short := func(s string) string {
				return strings.ReplaceAll(strings.ReplaceAll(s, "calendar.(*Solar).", ""), "LunarUtil.", "")
			}
			if a == bb {
				r.ok(rule, construct, c.pos(bo.Pos()), "both ends: "+short(a))
			} else {
				r.bad(rule, construct, c.pos(bo.Pos()), "the end's slot is "+short(a)+" but the start's slot is "+short(bb)+": the two ends of the interval are not measured alike")
			}
		}
	}
	r.check(n == 1, rule, "calendar.(*Yun).computeStart has one slot difference", c.fnPos(fn), fmt.Sprintf("%d subtractions of two slot indices found", n))
}

func r12_2_tables(c *Ctx, r *Report, rule string, fn *ssa.Function) {
	recv := ssa.Value(fn.Params[0])
	idx := map[string]int{}
	for _, f := range []string{"startYear", "startMonth", "startDay", "startHour"} {
		idx[f] = fieldIndexOf(recv, f)
		if idx[f] < 0 {
			r.bad(rule, "calendar.(*Yun).computeStart conversion", c.fnPos(fn), "field "+f+" not found (undecided = fail)")
			return
		}
	}
	type scenario struct {
		sect, minutes, days int64
		forward             bool
		hEnd, hStart        int64
	}
	problems := map[string]bool{}
	run := func(sc scenario) (got [4]interface{}, note string) {
		var leaf leafX
		tagOf := func(fr *evalFrame, v ssa.Value) (string, bool) {
			o, ok := evalWith(fr, v, leaf)
			p, isP := o.(absPtr)
			return p.tag, ok && isP
		}
		hourOf := func(tag string) int64 {
			// the birth moment is the start when forward, the end otherwise
			switch {
			case tag == "next", tag == "current" && !sc.forward:
				return sc.hEnd
			default:
				return sc.hStart
			}
		}
		leaf = func(fr *evalFrame, v ssa.Value) (interface{}, bool) {
			if p, ok := v.(*ssa.Parameter); ok && fr.parent == nil && p == fn.Params[1] {
				return sc.sect, true
			}
			if rc, f, ok := getterField(c, v); ok {
				if ofr, o := fr.origin(rc); ofr.parent == nil && o == recv && f == "Yun.forward" {
					return sc.forward, true
				}
				if f == "Solar.hour" {
					if t, ok := tagOf(fr, rc); ok {
						return hourOf(t), true
					}
				}
				if f == "JieQi.solar" {
					if t, ok := tagOf(fr, rc); ok && (t == "prevJie" || t == "nextJie") {
						return absPtr{strings.TrimSuffix(t, "Jie"), false}, true
					}
				}
				if f == "Lunar.solar" {
					return absPtr{"current", false}, true
				}
			}
			call, ok := v.(*ssa.Call)
			if !ok || call.Common().StaticCallee() == nil {
				return nil, false
			}
			callee := call.Common().StaticCallee()
			args := call.Common().Args
			switch {
			case recvIsNamed(callee, "Lunar") && callee.Name() == "GetPrevJie":
				return absPtr{"prevJie", false}, true
			case recvIsNamed(callee, "Lunar") && callee.Name() == "GetNextJie":
				return absPtr{"nextJie", false}, true
			case recvIsNamed(callee, "Lunar") && (callee.Name() == "GetPrevJieByWholeDay" || callee.Name() == "GetNextJieByWholeDay"):
				if w, ok := evalWith(fr, args[1], leaf); ok && w == interface{}(false) {
					return absPtr{strings.ToLower(callee.Name()[3:7]) + "Jie", false}, true
				}
				problems["the Jie is taken by whole days"] = true
				return nil, false
			case recvIsNamed(callee, "Solar") && len(args) == 2 && (callee.Name() == "SubtractMinute" || callee.Name() == "Subtract"):
				a, ok1 := tagOf(fr, args[0])
				b, ok2 := tagOf(fr, args[1])
				wantA, wantB := "next", "current"
				if !sc.forward {
					wantA, wantB = "current", "prev"
				}
				if !ok1 || !ok2 || a != wantA || b != wantB {
					problems[fmt.Sprintf("the distance is taken from %s to %s (forward=%v)", b, a, sc.forward)] = true
					return nil, false
				}
				if callee.Name() == "SubtractMinute" {
					return sc.minutes, true
				}
				return sc.days, true
			case recvIsNamed(callee, "Solar") && len(args) == 1 && callee.Name() == "ToYmdHms":
				if t, ok := tagOf(fr, args[0]); ok {
					return fmt.Sprintf("2022-03-09 %02d:30:00", hourOf(t)), true
				}
			case callee.Name() == "GetTimeZhiIndex" && len(args) == 1:
				if o, ok := evalWith(fr, args[0], leaf); ok {
					if str, isS := o.(string); isS && len(str) >= 5 && str[2] == ':' {
						var h int64
						fmt.Sscanf(str[:2], "%d", &h)
						if h == 23 || h == 0 {
							return int64(0), true
						}
						return (h + 1) / 2, true
					}
				}
				return nil, false
			}
			return nil, false
		}
		ev := &evaluator{leaf: leaf, inline: inlineLibrary}
		fr := &evalFrame{fn: fn, phiFrom: map[*ssa.BasicBlock]*ssa.BasicBlock{}}
		_, outcome := ev.runFrame(fr, nil, nil)
		if outcome != "return" {
			return got, outcome + " " + ev.fail
		}
		for i, f := range []string{"startYear", "startMonth", "startDay", "startHour"} {
			got[i] = fr.mem[memKey{recv, idx[f]}]
		}
		return got, ""
	}
	cmp := func(got [4]interface{}, want [4]int64) bool {
		for i := range want {
			if got[i] != interface{}(want[i]) {
				return false
			}
		}
		return true
	}
	// school 2
	{
		var bad []string
		n := 0
		ms := []int64{}
		for m := int64(0); m <= 9000; m++ {
			ms = append(ms, m)
		}
		ms = append(ms, 43199, 43200, 43201, 51839, 51840, 100000)
		for _, fw := range []bool{true, false} {
			for _, m := range ms {
				if len(bad) >= 4 || len(problems) > 0 || (!fw && m > 800 && m < 8000) {
					continue
				}
				got, note := run(scenario{sect: 2, minutes: m, forward: fw, hEnd: 10, hStart: 9})
				n++
				want := [4]int64{m / 4320, m % 4320 / 360, m % 360 / 12, m % 12 * 2}
				if note != "" {
					bad = append(bad, note)
				} else if !cmp(got, want) {
					bad = append(bad, fmt.Sprintf("%d minutes (forward=%v): %v years/months/days/hours, stated %v", m, fw, got, want))
				}
			}
		}
		for p := range problems {
			bad = append(bad, p)
		}
		sort.Strings(bad)
		r.check(len(bad) == 0 && n > 0, rule, "calendar.(*Yun).computeStart, school 2: three days per year at minute resolution", c.fnPos(fn), fmt.Sprintf("%d assignments; deviations: %v", n, headList(dedupe(bad), 3)))
	}
	// school 1
	{
		for k := range problems {
			delete(problems, k)
		}
		var bad []string
		n := 0
		slot := func(h int64) int64 {
			if h == 23 {
				return 11
			}
			if h == 0 {
				return 0
			}
			return (h + 1) / 2
		}
		for _, fw := range []bool{true, false} {
			for he := int64(0); he < 24; he++ {
				for hs := int64(0); hs < 24; hs++ {
					for _, d := range []int64{0, 1, 2, 3, 14, 29, 30, 31} {
						if len(bad) >= 4 || len(problems) > 0 {
							continue
						}
						got, note := run(scenario{sect: 1, days: d, forward: fw, hEnd: he, hStart: hs})
						n++
						hd, dd := slot(he)-slot(hs), d
						if hd < 0 {
							hd += 12
							dd--
						}
						md := hd * 10 / 30
						month := dd*4 + md
						want := [4]int64{month / 12, month - month/12*12, hd*10 - md*30, 0}
						if note != "" {
							bad = append(bad, note)
						} else if !cmp(got, want) {
							bad = append(bad, fmt.Sprintf("%d days, end hour %d, start hour %d (forward=%v): %v years/months/days/hours, stated %v", d, he, hs, fw, got, want))
						}
					}
				}
			}
		}
		for p := range problems {
			bad = append(bad, p)
		}
		sort.Strings(bad)
		r.check(len(bad) == 0 && n > 0, rule, "calendar.(*Yun).computeStart, school 1: a day is four months, a two-hour slot ten days", c.fnPos(fn), fmt.Sprintf("%d assignments; deviations: %v", n, headList(dedupe(bad), 3)))
	}
}
