#!/bin/sh
# tools/trymut.sh <patch.diff> <prop[,prop...]> : apply a seeded change to a scratch
# worktree of /repo HEAD (never to /repo itself), run the named checks on it, remove it.
set -u
PATCH=$(realpath "$1"); PROPS=$2
D=$(mktemp -d /tmp/mutrun.XXXXXX)
git -C /repo worktree add -q --detach "$D/wt" HEAD || exit 3
if ! git -C "$D/wt" apply "$PATCH" 2>/dev/null; then
  if ! git -C "$D/wt" apply --3way "$PATCH" >/dev/null 2>&1; then echo "PATCH-DOES-NOT-APPLY $PATCH"; git -C /repo worktree remove --force "$D/wt"; rm -rf "$D"; exit 4; fi
fi
export GOFLAGS=-mod=mod GOPROXY=off GOSUMDB=off GOTOOLCHAIN=local GOWORK=off
LUNARLINT_FIXTURE=/verif/lunarlint/testdata/fixture /verif/bin/lunarlint -prop "$PROPS" -repo "$D/wt" -evidence-dir "$D/ev" -findings /verif/known_findings.json -spec /verif/spec 2>&1 | grep -E '^(lunarlint|  violation|VIOLATION|KNOWN)' | cut -c1-${CUT:-330}
git -C /repo worktree remove --force "$D/wt"; rm -rf "$D"
