# Claims table read by mkmanifest.py.  claim(id, technique, level text, level note, design ref) / na(id, reason)

claim("C09",
      "effects/ownership analysis over go/ssa (who may write which state), lockset + lock/unlock pairing on the CFG, determinism-source scan",
      "Decides the structural conditions from which history- and schedule-independence follow: every package variable is immutable after init except a declared set; the declared cache is accessed only under the mutex, which is released on every exit including panics; no exported non-mutator writes to memory that existed before the call; no map-order, clock or ambient input outside the declared users. These hold for every call sequence and interleaving by construction, which sampled tests cannot show. It does not explore interleavings.",
      "Trusted: go/ssa's IR and static callee resolution; the effect models of the external functions the library calls (fmt, strings, math, strconv, container/list, sync, time); calls made by fmt through reflection are not followed (String methods are checked as entry points themselves).",
      "DESIGN.md 4/C09")

_TRUST = "Trusted: go/types + go/ssa of x/tools v0.29.0 (IR, static callee resolution), the rule implementations and reviewed tables under /verif (spec/, closed-world and axiom tables in ranges_axioms.go), and the named axioms printed in the evidence; calls made by fmt through reflection are not followed."

claim("C04",
      "decision tables read off the SSA form by an expression evaluator over finite abstract domains (loop-free regions, helpers inline, library numeric calls as abstract atoms; no library code runs) for the 3^6 component orderings of IsBefore/IsAfter; path enumeration with interval constraints for the 1582 sites, symbolic arm comparison, delegation-shape and constant-agreement checks over go/ssa",
      "Decides the structural half of civil date arithmetic: IsBefore/IsAfter are the strict lexicographic orders (complete for these functions); every October-1582 special case describes the same gap (days 5..14 absent, offset 10) and the switch constants agree; derived operations delegate with the right arguments; stepping results depend on the step; the two arms of the day difference are mirror images; clamps consult the target year/month. It does not decide the exactness of the Julian-Day formula or the additivity of NextDay (numeric).",
      _TRUST, "DESIGN.md 4/C04")
claim("C05",
      "interval analysis of the pillar-index fields (E3), effects-based accessor/variant routing against names and a reviewed declared-inputs table (E2), decision tables read off the SSA form by an expression evaluator over finite abstract domains (loop-free regions, helpers inline, library numeric calls as abstract atoms; no library code runs) for the 23:00 rule (hour x minute x 60 pillars), typed string-as-time comparisons",
      "Decides that every stored pillar index stays in its cycle, that each of ~180 pillar accessors reads exactly the pillar and variant its name (or the reviewed table) says, that the early-rat day pillar advances exactly in 23:00-23:59, that change-over comparisons are half-open and compare like renderings. Holds for every date by construction; the instants of the change-overs themselves are numeric and not decided.",
      _TRUST, "DESIGN.md 4/C05")
claim("C08",
      "container/list element-type flow, emptiness typestate, interval analysis of ~216 table index sites with named axioms, literal-table laws (map totality, packed-record grammar, ephemeris table shape)",
      "Decides the panic-freedom and well-formedness clauses that are visible in the code and data: unchecked type assertions match the pushed types; no possibly-empty string reaches constant-position slicing; every computed index into a package table is PROVEN or PROVEN-UNDER(named axioms/data lemmas); vocabulary maps are total; packed yi/ji and shen-sha data parse under the decoders' grammar with no duplicate codes. Panics that depend on numeric facts outside the axioms are not decided.",
      _TRUST, "DESIGN.md 4/C08")
claim("C11",
      "sibling input-signature comparison on effects (E2/E9), sect-switch typing of day-pillar uses in EightChar, delegation-shape checks for aliases and default schools",
      "Decides necessary conditions of route agreement: paired routes (hour object vs lunar hour accessors, year object vs New-Year year accessors) read the same fields, tables and term keys; every EightChar use of a day-pillar accessor is the variant selected by sect; deprecated aliases are pure delegations; default accessors delegate to the documented school and all objects agree on it; no accessor memoises. Equality of duplicated arithmetic on equal inputs is not decided.",
      _TRUST, "DESIGN.md 4/C11")
claim("C15",
      "value-dependence slicing (E4) for step relevance, list element-type flow, constant-trip-count and multiplier agreement checks, decision tables read off the SSA form by an expression evaluator over finite abstract domains (loop-free regions, helpers inline, library numeric calls as abstract atoms; no library code runs) for the week-index, weeks-of-month, first-day and month-step arithmetic",
      "Decides that every stepping method's result depends on its step (or is pinned by n == const), that GetWeeksOfMonth / GetIndex / GetIndexInYear / GetFirstDay equal the ceil((ordinal + wrapped weekday offset)/7) formulas for every weekday, first weekday and day (October 1582 included) and SolarMonth.Next lands on month 12*year+month-1+n, that the lists of days/months hold the asserted element types and the fixed unit sizes 7/3/6/12, and that week/season/half-year steps use the same multipliers. Week-index arithmetic and the exact month-separated walk are numeric and not decided.",
      _TRUST, "DESIGN.md 4/C15")
claim("C17",
      "affine forms over SSA (E11) for the epoch offsets and their inverses, delegation shape, declared-inputs check of the day-class predicates, table well-formedness, argument-role typing of year/month/day/hour/minute/second values, decision tables read off the SSA form by an expression evaluator over finite abstract domains (loop-free regions, helpers inline, library numeric calls as abstract atoms; no library code runs) for the Taoist/Buddhist constructors",
      "Decides that the Taoist/Buddhist year is lunar year + 2697 / + 544 as an affine identity and that the constructors invert it, that month/day delegate to the lunar date, that predicates read only their defining inputs and obtain the day's term through the alias-aware accessor, and that no Taoist/Buddhist year is passed where a lunar year is expected.",
      _TRUST, "DESIGN.md 4/C17")
claim("C18",
      "effects-based declared-inputs check for ~320 attribute accessors, vocabulary check of membership literals, classical laws evaluated on the literal tables",
      "Decides purity in the sense of the property: each attribute accessor reads exactly its declared defining inputs (per school) and writes nothing, so moments sharing the inputs share the attribute; membership literals contain only stems/branches/pillars; the 28-mansion, duty-god, clash, nayin-pair and spirit-offset laws hold on the tables. Whether table values match the classical sources beyond these laws is not decided.",
      _TRUST, "DESIGN.md 4/C18")
claim("C19",
      "decision tables read off the SSA form by an expression evaluator over finite abstract domains (loop-free regions, helpers inline, library numeric calls as abstract atoms; no library code runs) for ToYmd/ToYmdHms; injectivity of the name tables; rendering-kind typing (E10) of every string-as-time comparison; interval analysis of the renderers' table indices",
      "Decides that ToYmd/ToYmdHms are fixed-width zero-padded renderings of the receiver's fields in order, that digit/month/day name tables are injective and separator-free with the documented shape of the Chinese renderings, and that all 30 string-as-time comparisons compare equal rendering kinds. With the field ranges of C07 this yields parse-back and chronological sorting; a re-implementation without Sprintf is reported as undecided.",
      _TRUST, "DESIGN.md 4/C19")

claim("C01",
      "decision tables read off the SSA form by an expression evaluator over finite abstract domains (loop-free regions, helpers inline, library numeric calls as abstract atoms; no library code runs) for the stepping delegation, effects-based constructor agreement, branch-fact reasoning for the civil-year anchoring of the term table",
      "Decides the structural necessary conditions of the round trip only: lunar stepping is civil stepping followed by conversion; both constructors assign all 29 fields through the same builder and copy date/time fields like-to-like; the term table passed to the builder is provably that of the civil year; the day offsets of the two routes cancel. It does not decide that conversion round-trips on any date: the month table and the leap overrides are numeric data (a transposed LEAP_11 entry is invisible here).",
      _TRUST, "DESIGN.md 4/C01")
claim("C03",
      "literal-table laws for the term names (incl. the filter vocabulary with convertJieQi folded), parity arithmetic on selector indices, decision tables read off the SSA form by an expression evaluator over finite abstract domains (loop-free regions, helpers inline, library numeric calls as abstract atoms; no library code runs) for the nearest-term search (144 abstract cases), typed comparisons, constant checks",
      "Decides the order/lookup half of the property: table keys are in canonical order with the right aliases; Jie/Qi selectors use the right parity; 'previous term = latest at or before, next term = earliest strictly after' holds for every ordering of (term, now, best) on every path; day-level lookups compare year, month and day of the civil date; the UTC+8 shift is 1/3 day added once. That instants are roots of the solar longitude is numeric and not decided.",
      _TRUST, "DESIGN.md 4/C03")
claim("C06",
      "decision tables read off the SSA form by an expression evaluator over finite abstract domains (loop-free regions, helpers inline, library numeric calls as abstract atoms; no library code runs) for the four in-year filters, value-dependence and boundary-key checks on the month walk, effects-based immutability of published tables (builders recognised by behaviour), shape of the override membership scan",
      "Decides a thin structural part: the four in-year views filter by one predicate; month stepping depends on its step and re-anchors on the boundary month's own (year, month); nothing mutates a published year table; the LEAP_11/LEAP_12 membership scan visits every element and the tables are sorted and disjoint. Month counts, lengths and neighbour-table agreement are numeric and not decided.",
      _TRUST, "DESIGN.md 4/C06")
claim("C07",
      "who-may-write inventory over go/ssa, interval analysis at the allocation sites, dominance of validation over allocation, funnel closure, cache publish-after-build protocol, path enumeration of the 1582 sites",
      "Decides that objects are written only by their builders, that Solar fields are exactly [1,12]/[1,31]/[0,23]/[0,59]/[0,59] at the only allocation site with the month-length and 1582-gap rejections in place, that NewLunar validates before allocating, that every derived civil date funnels through NewSolar, and that a half-built year table is never handed out. Which lunar triples exist is numeric and not decided.",
      _TRUST, "DESIGN.md 4/C07")
claim("C10",
      "dominance of the four pillar equalities over every append, phi-selector typing of the day-pillar variant, delegation shape, candidate-construction shape",
      "Decides soundness and order shape: every returned moment was verified by forward conversion of that same moment against all four requested pillars under the requested day-boundary convention and against the base year; results are append-only in increasing candidate order; defaults delegate. Completeness is not decided (only one necessary condition of it: the day offset is measured from the term's civil-day pillar).",
      _TRUST, "DESIGN.md 4/C10")
claim("C12",
      "boolean path enumeration for the direction, affine forms for the period chain, interval analysis of the start offset with the x-(x/c)*c idiom, if-chain extraction of the five-tigers offsets, declared-inputs check",
      "Decides: forward <=> (yang == man) on all four cases and the matching choice of next/previous Jie; the conversion constants and the ranges months 0-11, days 0-29, hours 0-23; the affine relations that make periods consecutive ten-year spans aligned with the birth year; stepping in the fortune direction; the five-tigers table; every 60-cycle index in range; each pillar read is the declared one. The numeric start offset itself is not decided.",
      _TRUST, "DESIGN.md 4/C12")
claim("C13",
      "declared-inputs check including pillar variants of auxiliary term-day objects, constant agreement with the stem table, shape of the interval tests",
      "Decides inputs, constants and interval shapes: which terms, which day-stem variant and which lunar fields each counter reads; 81 = 9*9, geng = 6, wu = 4, +20/+10/+40, pentads of 5 capped at the third, 72 = 3*24; start <= day < start+81; middle period extended iff Liqiu strictly after; Chuxi iff |month| == 12, day >= 29 and the year changes tomorrow. That counters land on the right civil days is numeric.",
      _TRUST, "DESIGN.md 4/C13")
claim("C14",
      "literal-table laws for the 18-byte records, scan/layout agreement, order-preserving-writer check on Fix and its helpers, decision tables read off the SSA form by an expression evaluator over finite abstract domains (loop-free regions, helpers inline, library numeric calls as abstract atoms; no library code runs) for the workday and pay-rate decisions and the lookup keys, effects-based single-table check",
      "Decides: record layout, key formats and builder offsets agree; the built-in table is well-formed and strictly sorted; the by-target lookup does not assume adjacency that the table lacks; Fix writes only by in-place replace or sorted insert; the workday walk steps one day, consults the stepped day's record and counts working days; all views read the one live table and none memoises. The effect of arbitrary Fix strings is run-time data and not decided.",
      _TRUST, "DESIGN.md 4/C14")
claim("C16",
      "interval analysis of every NewNineStar argument, sibling input-signature and constant agreement of the duplicated star formulas, declared-inputs and typed-comparison checks",
      "Decides that every star index is in [0,8] with 9-entry naming tables, that the duplicated hour/year/month star formulas read corresponding inputs and use the same epoch constants, and that each star accessor reads the pillars of its school. The step rules themselves are arithmetic and not decided.",
      _TRUST, "DESIGN.md 4/C16")
claim("C20",
      "decision tables read off the SSA form by an expression evaluator over finite abstract domains (loop-free regions, helpers inline, library numeric calls as abstract atoms; no library code runs) over all 366 month-day codes (complete for GetXingZuo) and over (day, month length) for the last-weekday lookup; key templates (how a string key is composed, whatever the syntax) for the festival lookups; evaluation of the occurrence expression over 31 days",
      "Decides the zodiac clause completely (exactly one sign per date, contiguous runs in order starting on the conventional days, inputs month and day only) and the key construction of weekday festivals (occurrence = ceil(day/7), last = day+7 > month length, own weekday, well-formed tables). 'Exactly once per year' needs weekday arithmetic and is not decided.",
      _TRUST, "DESIGN.md 4/C20")

na("C02", "numerical agreement between an astronomical series (plus two packed correction strings) and external oracles over 16,800 lunations; no clause of it is visible in the shape of the code. The only structural conditions nearby (correction strings long enough, table strides, array bounds in LunarYear.compute) are about not panicking and are decided under C08 R08.6 (DESIGN.md 3)")
