# Claims table read by mkmanifest.py.  claim(id, technique, level text, level note, design ref) / na(id, reason)

claim("C09",
      "effects/ownership analysis over go/ssa (who may write which state), lockset + lock/unlock pairing on the CFG, determinism-source scan",
      "Decides the structural conditions from which history- and schedule-independence follow: every package variable is immutable after init except a declared set; the declared cache is accessed only under the mutex, which is released on every exit including panics; no exported non-mutator writes to memory that existed before the call; no map-order, clock or ambient input outside the declared users. These hold for every call sequence and interleaving by construction, which sampled tests cannot show. It does not explore interleavings.",
      "Trusted: go/ssa's IR and static callee resolution; the effect models of the external functions the library calls (fmt, strings, math, strconv, container/list, sync, time); calls made by fmt through reflection are not followed (String methods are checked as entry points themselves).",
      "DESIGN.md 4/C09")

for _p, _why in {
    "C01": "check under construction in this session (structural clauses planned, see DESIGN.md 4/C01)",
    "C02": "numerical agreement between an astronomical series and external oracles over 16,800 lunations; no clause is visible in the shape of the code (DESIGN.md 3)",
    "C03": "check under construction", "C04": "check under construction", "C05": "check under construction",
    "C06": "check under construction", "C07": "check under construction", "C08": "check under construction",
    "C10": "check under construction", "C11": "check under construction", "C12": "check under construction",
    "C13": "check under construction", "C14": "check under construction", "C15": "check under construction",
    "C16": "check under construction", "C17": "check under construction", "C18": "check under construction",
    "C19": "check under construction", "C20": "check under construction",
}.items():
    na(_p, _why)
