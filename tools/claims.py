# Claims table read by mkmanifest.py.  claim(id, technique, level text, level note, design ref) / na(id, reason)

claim("C09",
      "effects/ownership analysis over go/ssa (who may write which state), lockset + lock/unlock pairing on the CFG, determinism-source scan",
      "Decides the structural conditions from which history- and schedule-independence follow: every package variable is immutable after init except a declared set; the declared cache is accessed only under the mutex, which is released on every exit including panics; no exported non-mutator writes to memory that existed before the call; no map-order, clock or ambient input outside the declared users. These hold for every call sequence and interleaving by construction, which sampled tests cannot show. It does not explore interleavings.",
      "Trusted: go/ssa's IR and static callee resolution; the effect models of the external functions the library calls (fmt, strings, math, strconv, container/list, sync, time); calls made by fmt through reflection are not followed (String methods are checked as entry points themselves).",
      "DESIGN.md 4/C09")

_TRUST = "Trusted: go/types + go/ssa of x/tools v0.29.0 (IR, static callee resolution), the rule implementations and reviewed tables under /verif (spec/, closed-world and axiom tables in ranges_axioms.go), and the named axioms printed in the evidence; calls made by fmt through reflection are not followed."

claim("C04",
      "finite decision tables over comparison atoms (3^6 orderings), path enumeration with interval constraints for the 1582 sites, symbolic arm comparison, delegation-shape and constant-agreement checks over go/ssa",
      "Decides the structural half of civil date arithmetic: IsBefore/IsAfter are the strict lexicographic orders (complete for these functions); every October-1582 special case describes the same gap (days 5..14 absent, offset 10) and the switch constants agree; derived operations delegate with the right arguments; stepping results depend on the step; the two arms of the day difference are mirror images; clamps consult the target year/month. It does not decide the exactness of the Julian-Day formula or the additivity of NextDay (numeric).",
      _TRUST, "DESIGN.md 4/C04")
claim("C05",
      "interval analysis of the pillar-index fields (E3), effects-based accessor/variant routing against names and a reviewed declared-inputs table (E2), decision shape of the 23:00 rule, typed string-as-time comparisons",
      "Decides that every stored pillar index stays in its cycle, that each of ~180 pillar accessors reads exactly the pillar and variant its name (or the reviewed table) says, that the early-rat day pillar advances exactly in 23:00-23:59, that change-over comparisons are half-open and compare like renderings. Holds for every date by construction; the instants of the change-overs themselves are numeric and not decided.",
      _TRUST, "DESIGN.md 4/C05")
claim("C08",
      "container/list element-type flow, emptiness typestate, interval analysis of ~216 table index sites with named axioms, literal-table laws (map totality, packed-record grammar, ephemeris table shape)",
      "Decides the panic-freedom and well-formedness clauses that are visible in the code and data: unchecked type assertions match the pushed types; no possibly-empty string reaches constant-position slicing; every computed index into a package table is PROVEN or PROVEN-UNDER(named axioms/data lemmas); vocabulary maps are total; packed yi/ji and shen-sha data parse under the decoders' grammar with no duplicate codes. Panics that depend on numeric facts outside the axioms are not decided.",
      _TRUST, "DESIGN.md 4/C08")
claim("C11",
      "sibling input-signature comparison on effects (E2/E9), sect-switch typing of day-pillar uses in EightChar, delegation-shape checks for aliases and default schools",
      "Decides necessary conditions of route agreement: paired routes (hour object vs lunar hour accessors, year object vs New-Year year accessors) read the same fields, tables and term keys; every EightChar use of a day-pillar accessor is the variant selected by sect; deprecated aliases are pure delegations; default accessors delegate to the documented school and all objects agree on it; no accessor memoises. Equality of duplicated arithmetic on equal inputs is not decided.",
      _TRUST, "DESIGN.md 4/C11")
claim("C15",
      "value-dependence slicing (E4) for step relevance, list element-type flow, constant-trip-count and multiplier agreement checks",
      "Decides that every stepping method's result depends on its step (or is pinned by n == const), that the lists of days/months hold the asserted element types and the fixed unit sizes 7/3/6/12, and that week/season/half-year steps use the same multipliers. Week-index arithmetic and the exact month-separated walk are numeric and not decided.",
      _TRUST, "DESIGN.md 4/C15")
claim("C17",
      "affine forms over SSA (E11) for the epoch offsets and their inverses, delegation shape, declared-inputs check of the day-class predicates, table well-formedness",
      "Decides that the Taoist/Buddhist year is lunar year + 2697 / + 544 as an affine identity and that the constructors invert it, that month/day delegate to the lunar date, that predicates read only their defining inputs and obtain the day's term through the alias-aware accessor, and that no Taoist/Buddhist year is passed where a lunar year is expected.",
      _TRUST, "DESIGN.md 4/C17")
claim("C18",
      "effects-based declared-inputs check for ~320 attribute accessors, vocabulary check of membership literals, classical laws evaluated on the literal tables",
      "Decides purity in the sense of the property: each attribute accessor reads exactly its declared defining inputs (per school) and writes nothing, so moments sharing the inputs share the attribute; membership literals contain only stems/branches/pillars; the 28-mansion, duty-god, clash, nayin-pair and spirit-offset laws hold on the tables. Whether table values match the classical sources beyond these laws is not decided.",
      _TRUST, "DESIGN.md 4/C18")
claim("C19",
      "Sprintf format typing (E10): verbs, widths, argument provenance; injectivity of the name tables; rendering-kind typing of every string-as-time comparison",
      "Decides that ToYmd/ToYmdHms are fixed-width zero-padded renderings of the receiver's fields in order, that digit/month/day name tables are injective and separator-free with the documented shape of the Chinese renderings, and that all 30 string-as-time comparisons compare equal rendering kinds. With the field ranges of C07 this yields parse-back and chronological sorting; a re-implementation without Sprintf is reported as undecided.",
      _TRUST, "DESIGN.md 4/C19")

for _p, _why in {
    "C01": "check under construction in this session (structural clauses planned, see DESIGN.md 4/C01)",
    "C02": "numerical agreement between an astronomical series and external oracles over 16,800 lunations; no clause is visible in the shape of the code (DESIGN.md 3)",
    "C03": "check under construction",
    "C06": "check under construction", "C07": "check under construction",
    "C10": "check under construction", "C12": "check under construction",
    "C13": "check under construction", "C14": "check under construction",
    "C16": "check under construction",
 "C20": "check under construction",
}.items():
    na(_p, _why)
