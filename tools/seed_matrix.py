#!/usr/bin/env python3
"""Re-runs every check on every seeded change (scratch worktree per change) and rewrites the
detected_by part of each meta.json; prints regressions against the recorded matrix."""
import json, os, re, shutil, subprocess, sys, tempfile
from concurrent.futures import ThreadPoolExecutor
DST = "/verif/seeded"
ENV = dict(os.environ, GOFLAGS="-mod=mod", GOPROXY="off", GOSUMDB="off", GOTOOLCHAIN="local", GOWORK="off",
           LUNARLINT_FIXTURE="/verif/lunarlint/testdata/fixture")
def run(cmd): return subprocess.run(cmd, shell=True, capture_output=True, text=True, env=ENV)
def detect(patch):
    d = tempfile.mkdtemp(prefix="mutrun.", dir="/tmp"); wt = os.path.join(d, "wt")
    run(f"git -C /repo worktree add -q --detach {wt} HEAD")
    r = run(f"git -C {wt} apply {patch} || git -C {wt} apply --3way {patch}")
    out = run(f"/verif/bin/lunarlint -prop all -repo {wt} -evidence-dir {d}/ev -findings /verif/known_findings.json -spec /verif/spec")
    hits = {}; prop = None
    for line in out.stdout.splitlines():
        m = re.match(r"lunarlint (C\d+) ", line)
        if m: prop = m.group(1)
        m = re.match(r"\s+violation (\S+) (\S+) \[(.*?)\]: (.*)", line)
        if m and prop: hits.setdefault(prop, []).append({"rule": m.group(1), "pos": m.group(2), "construct": m.group(3)[:160]})
    run(f"git -C /repo worktree remove --force {wt}"); shutil.rmtree(d, ignore_errors=True)
    return hits
def one(sid):
    mp = os.path.join(DST, sid, "meta.json"); meta = json.load(open(mp))
    old = meta.get("detected_by", {})
    hits = detect(os.path.join(DST, sid, "patch.diff"))
    meta["detected_by"] = hits; meta["detected_by_own_property_check"] = meta["breaks_property"] in hits
    json.dump(meta, open(mp, "w"), indent=1, ensure_ascii=False)
    return sid, meta["breaks_property"], old, hits
only = sys.argv[1:] 
sids = sorted(d for d in os.listdir(DST) if os.path.exists(os.path.join(DST, d, "meta.json")) and (not only or any(d.startswith(o) for o in only)))
with ThreadPoolExecutor(7) as ex:
    for sid, pid, old, new in ex.map(one, sids):
        lost = sorted(set(old) - set(new)); gained = sorted(set(new) - set(old))
        flag = ""
        if pid in old and pid not in new: flag = "REGRESSION(own)"
        elif old and not new: flag = "REGRESSION(all)"
        print(sid, "own" if pid in new else ("other" if new else "MISSED"), sorted(new), ("lost %s" % lost if lost else ""), ("gained %s" % gained if gained else ""), flag)
