#!/bin/sh
# tools/confirm_mut.sh <dir with patch.diff and demo_test.go> : confirm a seeded change in a scratch
# worktree of /repo HEAD: (1) applies, (2) builds, (3) the existing suite passes with it,
# (4) the demonstration fails with it, (5) the demonstration passes without it.
# Prints one line of JSON. Never touches /repo itself.
set -u
DIR=$1
RACE=${2:-}
D=$(mktemp -d /tmp/mutconf.XXXXXX)
export GOFLAGS=-mod=mod GOPROXY=off GOSUMDB=off GOTOOLCHAIN=local GOWORK=off
git -C /repo worktree add -q --detach "$D/wt" HEAD || exit 3
cd "$D/wt"
applies=false; builds=false; suite=false; demofail=false; demopass=false
if git apply "$DIR/patch.diff" 2>/dev/null || git apply --3way "$DIR/patch.diff" >/dev/null 2>&1; then applies=true; fi
if $applies && go build ./... 2>/dev/null; then builds=true; fi
if $builds && go test -vet=off -count=1 ./... >/dev/null 2>&1; then suite=true; fi
names=$(grep -ho 'func Test[A-Za-z0-9_]*' "$DIR"/demo_test.go | sed 's/func //' | paste -sd'|' -)
cp "$DIR/demo_test.go" test/zz_demo_test.go
if $builds; then
  if go test $RACE -vet=off -count=1 -run "^($names)\$" ./test/ >"$D/with.log" 2>&1; then demofail=false; else demofail=true; fi
fi
git checkout -q -- . 2>/dev/null; git reset -q --hard 2>/dev/null; cp "$DIR/demo_test.go" test/zz_demo_test.go
if go test $RACE -vet=off -count=1 -run "^($names)\$" ./test/ >"$D/without.log" 2>&1; then demopass=true; fi
echo "{\"dir\":\"$DIR\",\"applies\":$applies,\"builds\":$builds,\"suite_passes_with_patch\":$suite,\"demo_fails_with_patch\":$demofail,\"demo_passes_without_patch\":$demopass,\"tests\":\"$names\"}"
cd /
git -C /repo worktree remove --force "$D/wt"; rm -rf "$D"
