#!/usr/bin/env python3
"""Imports confirmed mutants from /tmp/mut_out into /verif/seeded/<id>/ and records, for each,
which checks flag it (runs every check on a scratch worktree with the patch applied)."""
import json, os, re, shutil, subprocess, sys, tempfile
from concurrent.futures import ThreadPoolExecutor

SRC = sys.argv[1] if len(sys.argv) > 1 else "/tmp/mut_out"
PREFIX = sys.argv[2] if len(sys.argv) > 2 else ""   # e.g. "r2" gives ids Cxx-r2m1
ONLY = set(sys.argv[3].split(",")) if len(sys.argv) > 3 else None
DST = "/verif/seeded"
ENV = dict(os.environ, GOFLAGS="-mod=mod", GOPROXY="off", GOSUMDB="off", GOTOOLCHAIN="local", GOWORK="off",
           LUNARLINT_FIXTURE="/verif/lunarlint/testdata/fixture")

def run(cmd, **kw):
    return subprocess.run(cmd, shell=True, capture_output=True, text=True, env=ENV, **kw)

def detect(patch):
    d = tempfile.mkdtemp(prefix="mutrun.", dir="/tmp")
    wt = os.path.join(d, "wt")
    run(f"git -C /repo worktree add -q --detach {wt} HEAD")
    r = run(f"git -C {wt} apply {patch} || git -C {wt} apply --3way {patch}")
    out = run(f"/verif/bin/lunarlint -prop all -repo {wt} -evidence-dir {d}/ev -findings /verif/known_findings.json -spec /verif/spec")
    hits = {}
    prop = None
    for line in out.stdout.splitlines():
        m = re.match(r"lunarlint (C\d+) ", line)
        if m: prop = m.group(1)
        m = re.match(r"\s+violation (\S+) (\S+) \[(.*?)\]: (.*)", line)
        if m and prop:
            hits.setdefault(prop, []).append({"rule": m.group(1), "pos": m.group(2), "construct": m.group(3)[:160]})
    run(f"git -C /repo worktree remove --force {wt}"); shutil.rmtree(d, ignore_errors=True)
    return hits

def one(item):
    pid, mname, src = item
    sid = f"{pid}-{PREFIX}{mname}"
    dst = os.path.join(DST, sid)
    os.makedirs(dst, exist_ok=True)
    if not os.path.exists(os.path.join(dst, "patch.diff")):  # an existing patch may have been re-based onto the current HEAD
        shutil.copy(os.path.join(src, "patch.diff"), os.path.join(dst, "patch.diff"))
    shutil.copy(os.path.join(src, "demo_test.go"), os.path.join(dst, "demo_test.go"))
    notes = ""
    np = os.path.join(src.replace("m2p", "m2"), "notes.md")
    if os.path.exists(np):
        notes = open(np).read()
        open(os.path.join(dst, "notes.md"), "w").write(notes)
    conf = json.loads(run(f"/verif/tools/confirm_mut.sh {dst}").stdout.strip().splitlines()[-1])
    race = False
    if conf["builds"] and not conf["demo_fails_with_patch"]:
        conf = json.loads(run(f"/verif/tools/confirm_mut.sh {dst} -race").stdout.strip().splitlines()[-1])
        race = True
    hits = detect(os.path.join(dst, "patch.diff"))
    lines = [l.strip() for l in notes.splitlines() if l.strip()]
    needs = next((l for l in lines if re.search(r"(?i)needs|manifest|only ", l)), "")
    meta = {
        "id": sid,
        "breaks_property": pid,
        "origin": "written by an independent sub-agent that saw only the property text and a scratch worktree (no access to /verif)" + (
            "; ported by hand to the tree after the defer-Unlock fix (same change: publish before compute, explicit unlocks)" if src.endswith("m2p") else ""),
        "needs_to_manifest": needs[:400],
        "confirmed": {k: conf[k] for k in ("applies", "builds", "suite_passes_with_patch", "demo_fails_with_patch", "demo_passes_without_patch")},
        "demo_tests": conf["tests"],
        "demo_needs_race_detector": race,
        "what_was_run": "tools/confirm_mut.sh (scratch worktree of /repo HEAD: git apply; go build ./...; go test -vet=off -count=1 ./...; demo with and without the patch) and lunarlint -prop all on the patched scratch worktree",
        "detected_by": hits,
        "detected_by_own_property_check": pid in hits,
    }
    json.dump(meta, open(os.path.join(dst, "meta.json"), "w"), indent=1, ensure_ascii=False)
    return sid, pid in hits, sorted(hits), meta["confirmed"]

items = []
for pid in sorted(os.listdir(SRC)):
    p = os.path.join(SRC, pid)
    if not (os.path.isdir(p) and re.match(r"C\d+$", pid)): continue
    if ONLY and pid not in ONLY: continue
    for m in sorted(os.listdir(p)):
        if re.match(r"m\d+p?$", m) and os.path.exists(os.path.join(p, m, "patch.diff")) and os.path.exists(os.path.join(p, m, "demo_test.go")):
            if pid == "C07" and m == "m2" and not PREFIX: continue   # does not apply any more; m2p is its port
            items.append((pid, m.replace("p", ""), os.path.join(p, m)))
with ThreadPoolExecutor(6) as ex:
    for sid, own, props, conf in ex.map(one, items):
        print(sid, "own-check" if own else "NOT-BY-OWN", props, "" if all(conf.values()) else "UNCONFIRMED %s" % conf)
