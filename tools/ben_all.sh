#!/bin/sh
# tools/ben_all.sh [prefix]: re-runs every check on every behaviour-preserving refactoring under /verif/benign
# (scratch worktree per patch, 6 at a time) and prints those that raise an alarm.
cd /verif/benign || exit 2
ls -d ${1:-}*/ | sed 's,/$,,' | xargs -P 6 -I{} sh -c 'out=$(CUT=200 /verif/tools/tryben.sh /verif/benign/{}/patch.diff 2>&1 | grep -E "violation|DOES-NOT-APPLY" | sort -u | head -4); if [ -n "$out" ]; then echo "ALARM {}"; echo "$out"; fi'
echo "ben_all done"
