#!/usr/bin/env python3
"""Regenerates /verif/MANIFEST.json from the table below (kept in one place so the
claims, the not_applicable list and the commands never drift apart)."""
import json, os, subprocess, sys

HERE = os.path.dirname(os.path.dirname(os.path.abspath(__file__)))

# id -> (technique, level text, level note, design ref)
CLAIMS = {}
NA = {}

def claim(pid, technique, text, note, ref):
    CLAIMS[pid] = (technique, text, note, ref)

def na(pid, reason):
    NA[pid] = reason

def also(pid, text):
    """appends a sentence to the level text of a claim made above"""
    tech, old, note, ref = CLAIMS[pid]
    CLAIMS[pid] = (tech, old.rstrip() + " " + text, note, ref)

exec(open(os.path.join(HERE, "tools", "claims.py")).read())

props = [json.loads(l)["id"] for l in open(os.path.join(HERE, "properties.jsonl"))]
checks = []
for pid in props:
    if pid in CLAIMS:
        tech, text, note, ref = CLAIMS[pid]
        checks.append({
            "property_id": pid,
            "quick_cmd": "./check %s quick" % pid,
            "thorough_cmd": "./check %s thorough" % pid,
            "evidence_file": "/verif/evidence/%s.json" % pid,
            "replay_cmd_template": "./bin/lunarlint -explain {path}",
            "engine": "lunarlint",
            "level_claimed": {"category": "other", "text": text, "design_ref": ref},
            "level_note": note,
            "technique": tech,
        })
    elif pid not in NA:
        sys.exit("property %s neither claimed nor not_applicable" % pid)

man = {
    "version": 1,
    "setup_cmd": "cd /verif/lunarlint && GOFLAGS=-mod=mod GOPROXY=off GOSUMDB=off GOTOOLCHAIN=local GOWORK=off go build -o /verif/bin/lunarlint .",
    "hooks": {
        "guard": "verif",
        "enable": "none: the analyser only reads /repo; no instrumentation or build tag is used",
        "baseline_off_cmd": "cd /repo && GOFLAGS=-mod=mod GOPROXY=off GOSUMDB=off go test -vet=off -count=1 ./...",
        "source_commits": [],
        "add_only": True,
    },
    "engines": [{
        "name": "lunarlint",
        "path": "/verif/lunarlint",
        "serves_properties": sorted(CLAIMS),
        "kind_free_text": "repository-specific static analyser (go/packages + go/types + go/ssa from golang.org/x/tools v0.29.0): effects/access-path analysis, list element-type flow, lockset and pairing, value dependence, finite decision tables over comparison atoms, interval analysis of table indices, literal-table laws, Sprintf format typing; positive-control fixture; no library code is executed",
    }],
    "checks": checks,
    "not_applicable": [{"property_id": p, "reason": NA[p]} for p in props if p in NA and p not in CLAIMS],
    "notes": "All claims are at level 'other': each check decides named structural clauses of its property from the source of /repo's working tree (see DESIGN.md section 4 for what is and is not decided per property). Genuine defects found were repaired in /repo as 'fix:' commits and are recorded as fixed in /verif/known_findings.json.",
}
json.dump(man, open(os.path.join(HERE, "MANIFEST.json"), "w"), indent=1, ensure_ascii=False)
print("MANIFEST.json: %d checks, %d not applicable" % (len(checks), len(man["not_applicable"])))
