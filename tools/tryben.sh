#!/bin/sh
# tools/tryben.sh <patch.diff> : apply a behaviour-preserving refactoring to a scratch worktree and
# run all checks; every violation printed is a false alarm to triage.
set -u
PATCH=$(realpath "$1")
D=$(mktemp -d /tmp/benrun.XXXXXX)
git -C /repo worktree add -q --detach "$D/wt" HEAD || exit 3
if ! git -C "$D/wt" apply "$PATCH" 2>/dev/null; then echo "PATCH-DOES-NOT-APPLY"; git -C /repo worktree remove --force "$D/wt"; rm -rf "$D"; exit 4; fi
export GOFLAGS=-mod=mod GOPROXY=off GOSUMDB=off GOTOOLCHAIN=local GOWORK=off
(cd "$D/wt" && go build ./... 2>&1 | head -3; go test -vet=off -count=1 ./... 2>&1 | grep -E "^(FAIL|---)" | head -3)
LUNARLINT_FIXTURE=/verif/lunarlint/testdata/fixture /verif/bin/lunarlint -prop all -repo "$D/wt" -evidence-dir "$D/ev" -findings /verif/known_findings.json -spec /verif/spec 2>&1 | grep -E '^  violation' | cut -c1-${CUT:-260}
git -C /repo worktree remove --force "$D/wt"; rm -rf "$D"
