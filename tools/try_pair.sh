#!/bin/sh
# tools/try_pair.sh <dir with clean.diff, slip.diff> <own property id>: the clean refactoring must be
# quiet under every check, the slip should be reported (by the own property's check).
set -u
DIR=$(realpath "$1"); PID=$2
echo "--- $DIR clean:"
CUT=${CUT:-260} /verif/tools/tryben.sh "$DIR/clean.diff"
echo "--- $DIR slip:"
D=$(mktemp -d /tmp/mutrun.XXXXXX)
git -C /repo worktree add -q --detach "$D/wt" HEAD || exit 3
if ! git -C "$D/wt" apply "$DIR/slip.diff" 2>/dev/null; then echo "SLIP-DOES-NOT-APPLY"; fi
export GOFLAGS=-mod=mod GOPROXY=off GOSUMDB=off GOTOOLCHAIN=local GOWORK=off
LUNARLINT_FIXTURE=/verif/lunarlint/testdata/fixture /verif/bin/lunarlint -prop all -repo "$D/wt" -evidence-dir "$D/ev" -findings /verif/known_findings.json -spec /verif/spec 2>&1 | awk -v own="$PID" '/^lunarlint /{p=$2} /^  violation/{n[p]++; if (!(p in first)) first[p]=$0} END{ if (length(n)==0) print "MISSED"; for (k in n) printf "%s%s: %d  %s\n", (k==own?"OWN ":"    "), k, n[k], substr(first[k],1,240)}'
git -C /repo worktree remove --force "$D/wt"; rm -rf "$D"
