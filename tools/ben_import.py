#!/usr/bin/env python3
"""Imports behaviour-preserving refactorings (negative examples) into /verif/benign/<id>/ and records
which properties' anchor files each one touches; runs every check on each (scratch worktree) and
records the alarms (there must be none)."""
import json, os, re, shutil, subprocess, sys, tempfile
from concurrent.futures import ThreadPoolExecutor
DST = "/verif/benign"
ENV = dict(os.environ, GOFLAGS="-mod=mod", GOPROXY="off", GOSUMDB="off", GOTOOLCHAIN="local", GOWORK="off",
           LUNARLINT_FIXTURE="/verif/lunarlint/testdata/fixture")
props = [json.loads(l) for l in open("/verif/properties.jsonl")]
def run(cmd): return subprocess.run(cmd, shell=True, capture_output=True, text=True, env=ENV)
def check(patch):
    d = tempfile.mkdtemp(prefix="benrun.", dir="/tmp"); wt = os.path.join(d, "wt")
    run(f"git -C /repo worktree add -q --detach {wt} HEAD")
    ap = run(f"git -C {wt} apply {patch}")
    res = {"applies": ap.returncode == 0}
    if res["applies"]:
        res["builds"] = run(f"cd {wt} && go build ./...").returncode == 0
        res["suite_passes"] = run(f"cd {wt} && go test -vet=off -count=1 ./...").returncode == 0
        out = run(f"/verif/bin/lunarlint -prop all -repo {wt} -evidence-dir {d}/ev -findings /verif/known_findings.json -spec /verif/spec")
        res["alarms"] = [l.strip()[:300] for l in out.stdout.splitlines() if re.match(r"\s+violation ", l)]
    run(f"git -C /repo worktree remove --force {wt}"); shutil.rmtree(d, ignore_errors=True)
    return res
def one(item):
    bid, src, origin = item
    dst = os.path.join(DST, bid); os.makedirs(dst, exist_ok=True)
    shutil.copy(src, os.path.join(dst, "patch.diff"))
    notes = os.path.join(os.path.dirname(src), "notes.md")
    if os.path.exists(notes) and os.path.dirname(src) != dst: shutil.copy(notes, os.path.join(dst, "notes.md"))
    touched = sorted(set(re.findall(r"^\+\+\+ b/(\S+)", open(src).read(), re.M)))
    rel = sorted(p["id"] for p in props if set(p["anchors"]["files"]) & set(touched))
    res = check(os.path.join(dst, "patch.diff"))
    meta = {"id": bid, "origin": origin, "touches": touched, "relevant_properties": rel, "checked": res,
            "what_was_run": "tools/ben_import.py: scratch worktree of /repo HEAD, git apply, go build, full test suite, lunarlint -prop all"}
    json.dump(meta, open(os.path.join(dst, "meta.json"), "w"), indent=1, ensure_ascii=False)
    return bid, res
items = []
for spec in sys.argv[1:]:
    # spec: <id>=<patch path>[=origin]
    parts = spec.split("=")
    items.append((parts[0], parts[1], parts[2] if len(parts) > 2 else "written by an independent sub-agent asked for behaviour-preserving clean-up refactorings (saw only its scratch worktree)"))
with ThreadPoolExecutor(6) as ex:
    for bid, res in ex.map(one, items):
        print(bid, "quiet" if res.get("applies") and res.get("suite_passes") and not res.get("alarms") else res)
